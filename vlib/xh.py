"""E1 driver: runs the conditions of one property through CrossHair workers,
replays counterexamples natively, applies known findings, writes evidence."""
import hashlib
import importlib
import itertools
import json
import os
import subprocess
import sys
import time
from concurrent.futures import ThreadPoolExecutor

import vlib.env as env
from vlib import cond as condmod

PY = sys.executable
EXIT_OK, EXIT_VIOLATION, EXIT_INCONCLUSIVE = 0, 1, 2


def _run_worker(argv, wall_timeout):
  envv = dict(os.environ)
  envv['PYTHONPATH'] = env.VERIF + os.pathsep + envv.get('PYTHONPATH', '')
  envv['PYTHONDONTWRITEBYTECODE'] = '1'
  envv['PYTHONHASHSEED'] = '0'
  t0 = time.time()
  try:
    p = subprocess.run([PY, '-m', 'vlib.xh_worker'] + argv, capture_output=True,
                       text=True, timeout=wall_timeout, env=envv, cwd=env.VERIF)
  except subprocess.TimeoutExpired:
    return {'status': 'unknown', 'message': 'worker wall timeout %.0fs' % wall_timeout,
            'wall_s': time.time() - t0, 'paths': 0, 'reached': {}}
  for line in reversed(p.stdout.splitlines()):
    if line.startswith('XHRESULT '):
      return json.loads(line[len('XHRESULT '):])
  return {'status': 'error', 'message': 'worker produced no result (rc=%s): %s' % (
      p.returncode, (p.stderr or p.stdout)[-1500:]), 'wall_s': time.time() - t0,
      'paths': 0, 'reached': {}}


def analyze_job(job):
  argv = ['analyze', job['module'], job['cond'], '--timeout', str(job['timeout'])]
  if job.get('per_path_timeout'):
    argv += ['--per-path-timeout', str(job['per_path_timeout'])]
  for k, v in job['fixes'].items():
    argv += ['--fix', '%s=%s' % (k, v)]
  for e in job.get('extra_pre', []):
    argv += ['--extra-pre', e]
  return _run_worker(argv, job['timeout'] * 2 + 120)


def replay_args(module, cname, args):
  return _run_worker(['replay', module, cname, '--args', json.dumps(args)], 600)


def load_known(prop):
  path = os.path.join(env.VERIF, 'known_findings.json')
  if not os.path.exists(path):
    return []
  with open(path) as f:
    data = json.load(f)
  return [e for e in data.get('findings', [])
          if e.get('property') == prop and e.get('status') == 'known']


def _matches_known(entry, module, cname, args):
  if entry.get('cond') not in (None, cname):
    return False
  M = importlib.import_module(module)
  g = dict(vars(M))
  try:
    vals = {k: eval(v, g) for k, v in args.items()}
    return bool(eval(entry['exclude'], g, vals))
  except Exception:
    return False


def expand_jobs(module, c, tier):
  split = c.split
  timeout = c.timeout
  if tier == 'thorough':
    if c.split_thorough is not None:
      split = c.split_thorough
    if c.timeout_thorough:
      timeout = c.timeout_thorough
  jobs = []
  if split:
    keys = list(split)
    for combo in itertools.product(*[list(split[k]) for k in keys]):
      jobs.append({'module': module, 'cond': c.name, 'fixes': dict(zip(keys, [repr(v) for v in combo])),
                   'timeout': timeout, 'expect': c.expect, 'per_path_timeout': c.per_path_timeout,
                   'extra_pre': []})
  else:
    jobs.append({'module': module, 'cond': c.name, 'fixes': {}, 'timeout': timeout,
                 'expect': c.expect, 'per_path_timeout': c.per_path_timeout, 'extra_pre': []})
  return jobs


class Outcome:
  def __init__(self):
    self.violations = []      # dicts
    self.known_hits = []      # (entry, args)
    self.inconclusive = []    # messages
    self.obligations = 0
    self.discharged = 0
    self.paths = 0
    self.reached = 0
    self.samples = []
    self.witnesses = 0
    self.cpu_s = 0.0
    self.per_cond = {}
    self.class_hits = {}      # known-finding classes hit inside conditions (cond.known_hit)


def process_job(job, known, out, prop, log):
  """Runs one job to a final verdict (looping over known-finding exclusions)."""
  label = job['cond'] + (''.join('[%s=%s]' % kv for kv in job['fixes'].items()))
  for _round in range(6):
    res = analyze_job(job)
    st = res.get('status')
    out.paths += res.get('paths', 0)
    out.reached += sum(res.get('reached', {}).values())
    out.cpu_s += res.get('wall_s', 0)
    for k, n_ in (res.get('known_hits') or {}).items():
      out.class_hits[k] = out.class_hits.get(k, 0) + n_
    pc = out.per_cond.setdefault(job['cond'], {'jobs': 0, 'paths': 0, 'reached': 0, 'wall_s': 0.0, 'verdicts': {}})
    pc['jobs'] += 1; pc['paths'] += res.get('paths', 0); pc['wall_s'] = round(pc['wall_s'] + res.get('wall_s', 0), 2)
    pc['reached'] += sum(res.get('reached', {}).values())
    pc['verdicts'][st] = pc['verdicts'].get(st, 0) + 1
    log('%-60s %-10s paths=%-5d %.1fs %s' % (label, st, res.get('paths', 0), res.get('wall_s', 0),
                                          (res.get('message') or '')[:100] if st != 'confirmed' else ''))
    if job['expect'] == 'confirm':
      if st == 'confirmed':
        out.discharged += 1
        return
      if st == 'refuted' and res.get('args'):
        rp = replay_args(job['module'], job['cond'], res['args'])
        reproduces = rp.get('status') == 'ok' and rp.get('pre_ok') and (
            rp.get('returned') is False or rp.get('exception'))
        if not reproduces:
          out.inconclusive.append('%s: counterexample %s did not reproduce natively (%s)' % (
              label, res.get('call'), rp))
          return
        if 'Unmodelled' in str(rp.get('exception') or ''):
          # the code under test left the modelled environment (e.g. a file-system primitive MemFS lacks):
          # the harness cannot decide this code - inconclusive, not a violation
          out.inconclusive.append('%s: code under test uses an operation outside the model: %s' % (label, rp.get('exception')))
          return
        hit = next((e for e in known if _matches_known(e, job['module'], job['cond'], res['args'])), None)
        if hit is not None:
          out.known_hits.append((hit, res['args']))
          job = dict(job, extra_pre=job['extra_pre'] + ['not (%s)' % hit['exclude']])
          continue
        out.violations.append({'property': prop, 'module': job['module'], 'cond': job['cond'],
                               'args': res['args'], 'call': res.get('call'),
                               'crosshair_message': res.get('message'),
                               'native_replay': {k: rp.get(k) for k in ('returned', 'exception')}})
        return
      out.inconclusive.append('%s: %s %s' % (label, st, (res.get('message') or '')[:300]))
      return
    else:  # reachability twin: must be refuted, and the witness must replay
      if st == 'refuted' and res.get('args'):
        rp = replay_args(job['module'], job['cond'], res['args'])
        if rp.get('status') == 'ok' and rp.get('pre_ok') and rp.get('returned') is False:
          out.discharged += 1
          out.witnesses += 1
          out.samples.append({'cond': job['cond'], 'witness_args': res['args']})
          return
        out.inconclusive.append('%s: reachability witness %s did not replay (%s)' % (label, res.get('call'), rp))
        return
      if st == 'confirmed':
        out.inconclusive.append('%s: VACUOUS - reachability twin confirmed (assertion never reached)' % label)
        return
      out.inconclusive.append('%s: twin %s %s' % (label, st, (res.get('message') or '')[:300]))
      return
  out.inconclusive.append('%s: too many known-finding exclusion rounds' % label)


def run_property(prop, module, tier, only=None, jobs_n=None, log=print):
  """`module` may be a list: the conditions of several harness modules decide one property."""
  modules = [module] if isinstance(module, str) else list(module)
  known = load_known(prop)
  out = Outcome()
  jobs = []
  conds = []
  for m in modules:
    importlib.import_module(m)
    cs = [c for c in condmod.REGISTRY[m] if tier in c.tiers and c.engine == 'xh']
    if only:
      cs = [c for c in cs if c.name in only]
    conds.extend(cs)
    for c in cs:
      jobs.extend(expand_jobs(m, c, tier))
  out.obligations = len(jobs)
  n = jobs_n or int(os.environ.get('VERIF_JOBS', '0')) or min(16, os.cpu_count() or 4)
  # longest first
  jobs.sort(key=lambda j: -j['timeout'])
  with ThreadPoolExecutor(max_workers=n) as ex:
    list(ex.map(lambda j: process_job(j, known, out, prop, log), jobs))
  return out, conds
