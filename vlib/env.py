"""Process bootstrap shared by every harness: import path, argv pin, usb stubs.

Imported (for its side effects) by every props module *before* openhtf.
The modules under test are always the live files of the working tree at
$VERIF_REPO (default /repo); nothing is copied.
"""
import hashlib
import inspect
import os
import sys
import types

REPO = os.environ.get('VERIF_REPO', '/repo')
VERIF = os.path.dirname(os.path.dirname(os.path.abspath(__file__)))
WORK = os.path.join(VERIF, '.work')

if REPO not in sys.path:
  sys.path.insert(0, REPO)
if VERIF not in sys.path:
  sys.path.insert(1, VERIF)

# Test.configure()/conf parse argv at import and on construction.
sys.argv = ['verif']
os.environ.setdefault('OPENHTF_VERIF', '1')


def install_usb_stubs():
  """Make openhtf.plugs.usb.<submodule> importable without libusb1/usb1.

  The package __init__ imports the USB stack; we register an empty package
  object whose __path__ is the real directory, so the submodules under test are
  the real, unmodified files.
  """
  import openhtf.plugs  # real package
  name = 'openhtf.plugs.usb'
  if name not in sys.modules:
    pkg = types.ModuleType(name)
    pkg.__path__ = [os.path.join(REPO, 'openhtf', 'plugs', 'usb')]
    pkg.__package__ = name
    sys.modules[name] = pkg
    openhtf.plugs.usb = pkg
  if 'libusb1' not in sys.modules:
    lib = types.ModuleType('libusb1')
    # usb_exceptions only reads error-name tables for messages.
    lib.libusb_error = types.SimpleNamespace(forward_dict={}, reverse_dict={})
    lib.LIBUSB_ERROR_TIMEOUT = -7
    lib.LIBUSB_ERROR_NOT_FOUND = -5
    sys.modules['libusb1'] = lib
  if 'usb1' not in sys.modules:
    u = types.ModuleType('usb1')
    class USBError(Exception):
      value = 0
    u.USBError = USBError
    sys.modules['usb1'] = u


def src_hash(obj):
  """sha256 prefix of the live source of a function/class (for evidence)."""
  try:
    src = inspect.getsource(obj)
  except (OSError, TypeError):
    return 'nosource'
  return hashlib.sha256(src.encode()).hexdigest()[:16]


def describe(objs):
  out = []
  for o in objs:
    mod = getattr(o, '__module__', '?')
    qn = getattr(o, '__qualname__', getattr(o, '__name__', repr(o)))
    out.append({'function': '%s:%s' % (mod, qn), 'sha256_16': src_hash(o)})
  return out
