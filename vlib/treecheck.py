"""Shared body of the program-level conditions (C01, C02, C03): runs the real
executor inline on a tree of family T with a symbolic script and compares with
the specification interpreter."""
import copy

from vlib import exe_harness as H
from vlib import spec_events as SE
from vlib import trees as T
from vlib.cond import reach

from openhtf.core import test_executor as TE
from openhtf.core import test_record as TR

CONF = H.CONF
TESTS = {}

# deviation kinds: (behaviour code, measurement kind); index 0 is nominal.
KINDS = ((0, 0), (2, 0), (4, 0), (6, 0), (5, 0), (3, 0), (0, 1),          # quick: 0..6
         (8, 0), (10, 0), (9, 0), (7, 0), (0, 2), (1, 3))                  # thorough adds 7..12


def test_for(ti):
  if ti not in TESTS:
    TESTS[ti] = T.build_test(T.ALL[ti])
  return TESTS[ti]


def _meas(kind):
  """0 pass (5), 1 fail (50), 2 unset, 3 marginal pass (1)."""
  if kind == 0:
    return (True, 5)
  if kind == 1:
    return (True, 50)
  if kind == 2:
    return (False, 0)
  return (True, 1)


class Result:
  pass


def run_tree_lazy(ti, bs, rb, mks, dgs, soff, au):
  """Like run_tree, but bs / mks are lists of thunks (forked on only when consulted)."""
  return run_tree(ti, bs, rb, mks, dgs, soff, au, lazy=True)


def run_tree(ti, bs, rb, mks, dgs, soff, au, lazy=False, reset=True):
  """bs: behaviour of the first invocation of p0..p4; rb: behaviour of any later invocation;
  mks: measurement kind per phase; dgs: diagnoser code per diagnosing phase."""
  tree = T.ALL[ti]
  test = test_for(ti)
  if reset:
    H.reset_globals()
  else:
    H.SCRIPT.reset()
  S = H.SCRIPT
  S.bad_index = 1         # the non-PhaseResult return value used here is the falsy 0 (all values: C05)
  for node in T.phases_of(tree):
    i = int(node[1][1:])
    S.beh[node[1]] = [bs[i], rb]
    if lazy:
      S.meas[node[1]] = [(lambda f=mks[i]: _meas(f()))]
    else:
      S.meas[node[1]] = [(lambda k=mks[i]: _meas(k))]
    if node[2].get('diag'):
      S.diag[node[2]['diag']] = [dgs[i] if i < len(dgs) else 0]
  opts = copy.copy(test._test_options)
  opts.stop_on_first_failure = soff
  CONF.load(allow_unset_measurements=au)      # (possibly symbolic) bool, forked on only when consulted
  ex = TE.TestExecutor(test.descriptor, 'uid:tree%d' % ti, None, opts, False)
  escaped = None
  try:
    try:
      ex._thread_proc()
    except Exception as e:            # the executor itself failed
      escaped = e
    rec = ex.test_state.test_record
  finally:
    try:
      ex.test_state.close()
    except Exception:
      pass
    CONF.reset()
  reach()
  r = Result()
  r.escaped = escaped
  r.rec = rec
  r.log = list(S.log)
  spec = SE.Spec(S, soff=soff, allow_unset=au)
  r.spec_outcome = spec.run(tree)
  r.spec = spec
  return r


def same_execution(r):
  """C02: bodies that executed (order, multiplicity) and the records produced equal the spec's."""
  calls = [e for e in r.log if e[0] in ('run', 'diag')]
  if calls != r.spec.calls:
    return False
  rec = r.rec
  got_ph = [(p.name, p.outcome.name if p.outcome else None, p.subtest_name) for p in rec.phases]
  if got_ph != r.spec.phases:
    return False
  if [(s.name, s.outcome.name) for s in rec.subtests] != r.spec.subtests:
    return False
  if [(b.name, b.branch_taken) for b in rec.branches] != r.spec.branches:
    return False
  got_cp = []
  for c in rec.checkpoints:
    res = c.result.phase_result
    got_cp.append((c.name, res.name if hasattr(res, 'name') and not isinstance(res, type) and res.__class__.__name__ == 'PhaseResult' else 'ERROR'))
  return got_cp == r.spec.checkpoints


def no_false_pass(r, au):
  """C01: outcome equals the statement's ladder; PASS implies every conjunct on the observed record."""
  rec = r.rec
  if rec.outcome is None or rec.outcome.name != r.spec_outcome:
    return False
  if r.escaped is not None:
    return False                      # the executor itself must not fail
  if rec.outcome is TR.Outcome.PASS:
    for p in rec.phases:
      if p.outcome in (TR.PhaseOutcome.FAIL, TR.PhaseOutcome.ERROR):
        return False
      if p.outcome is not TR.PhaseOutcome.SKIP:
        # measurements of a phase that ended SKIP (SKIP result / non-final REPEAT) are not part
        # of the verdict: the phase counts as skipped by a documented rule
        for m in (p.measurements or {}).values():
          if m.outcome.name == 'FAIL' or (m.outcome.name in ('UNSET', 'PARTIALLY_SET') and not au):
            return False
      if p.failure_diagnosis_results:
        return False
    if rec.phases and all(p.outcome is TR.PhaseOutcome.SKIP for p in rec.phases):
      return False
    if any(d.is_failure for d in rec.diagnoses):
      return False
    if any(s.outcome is TR.SubtestOutcome.FAIL for s in rec.subtests):
      return False
  return True
