"""./bin/check <ID> --tier quick|thorough [--replay path] [--only cond,...]"""
import sys as _sys
_ARGV = list(_sys.argv[1:])
import argparse
import importlib
import json
import os
import sys
import time

import vlib.env as env
from vlib import cond as condmod
from vlib import xh


def _log(msg):
  sys.stderr.write(msg + '\n')
  sys.stderr.flush()


def do_replay(path):
  with open(path) as f:
    v = json.load(f)
  rp = xh.replay_args(v['module'], v['cond'], v['args'])
  print(json.dumps(rp, indent=1))
  bad = rp.get('status') == 'ok' and (rp.get('returned') is False or rp.get('exception'))
  if bad:
    print('VIOLATION property=%s replay=%s' % (v['property'], path))
    return 1
  print('replay: property holds on this input now')
  return 0


def run_smt_conds(module, tier, only, out, prop):
  conds = [c for c in condmod.REGISTRY[module] if tier in c.tiers and c.engine == 'smt']
  if only:
    conds = [c for c in conds if c.name in only]
  from concurrent.futures import ThreadPoolExecutor

  def one(c):
    res = xh._run_worker(['smt', module, c.name, '--tier', tier], (c.timeout_thorough if tier == 'thorough' and c.timeout_thorough else c.timeout) + 60)
    return c, res
  out.obligations += len(conds)
  with ThreadPoolExecutor(max_workers=min(16, max(1, len(conds)))) as ex:
    results = list(ex.map(one, conds))
  for c, res in results:
    st = res.get('status')
    _log('%-60s %-10s queries=%s %.1fs %s' % (c.name, res.get('verdict', st), res.get('queries'), res.get('wall_s', 0), (res.get('message') or '')[:120]))
    out.cpu_s += res.get('wall_s', 0)
    pc = out.per_cond.setdefault(c.name, {'jobs': 1, 'queries': res.get('queries', 0), 'wall_s': res.get('wall_s', 0), 'verdicts': {res.get('verdict', st): 1}})
    if st != 'ok':
      out.inconclusive.append('%s: smt worker %s %s' % (c.name, st, (res.get('message') or '')[:300]))
      continue
    out.paths += res.get('queries', 0)
    out.reached += res.get('nontrivial', res.get('queries', 0))
    for s in res.get('samples', [])[:3]:
      out.samples.append({'cond': c.name, 'query': s})
    v = res.get('verdict')
    if v == 'holds':
      out.discharged += 1
    elif v == 'violated':
      if res.get('replayed'):
        known = xh.load_known(prop)
        hit = next((e for e in known if e.get('cond') == c.name and e.get('key') in (res.get('cex_key'), None)), None)
        if hit:
          out.known_hits.append((hit, res.get('cex')))
          out.discharged += 1
        else:
          out.violations.append({'property': prop, 'module': module, 'cond': c.name, 'args': {},
                                 'smt_cex': res.get('cex'), 'call': res.get('message')})
      else:
        out.inconclusive.append('%s: solver model did not replay on the real code: %s' % (c.name, res.get('cex')))
    else:
      out.inconclusive.append('%s: %s %s' % (c.name, v, (res.get('message') or '')[:300]))


def main():
  ap = argparse.ArgumentParser()
  ap.add_argument('prop')
  ap.add_argument('--tier', default=os.environ.get('VERIF_TIER', 'quick'), choices=['quick', 'thorough'])
  ap.add_argument('--replay')
  ap.add_argument('--only', default='')
  ap.add_argument('--jobs', type=int, default=0)
  ns = ap.parse_args(_ARGV)
  if ns.replay:
    sys.exit(do_replay(ns.replay))
  prop = ns.prop
  module = 'props.%s' % prop
  seed = int(os.environ.get('VERIF_SEED', '0') or 0)
  t0 = time.time()
  try:
    M = importlib.import_module(module)
  except Exception as e:
    import traceback
    traceback.print_exc()
    print('INCONCLUSIVE property=%s cannot import harness: %s' % (prop, e))
    sys.exit(2)
  only = [s for s in ns.only.split(',') if s]
  pre = getattr(M, 'prepare', None)
  prep_info = pre(ns.tier) if pre else None
  also = list(getattr(M, 'ALSO', []))      # further harness modules deciding parts of the same property
  AM = [importlib.import_module(a) for a in also]
  out, conds = xh.run_property(prop, [module] + also, ns.tier, only=only, jobs_n=ns.jobs or None, log=_log)
  run_smt_conds(module, ns.tier, only, out, prop)
  wall = time.time() - t0

  # ---- report -----------------------------------------------------------
  os.makedirs(os.path.join(env.VERIF, 'replays'), exist_ok=True)
  seen = set()
  for hit, args in out.known_hits:
    k = hit.get('key')
    if k in seen:
      continue
    seen.add(k)
    print('KNOWN-FINDING: property=%s %s [%s]' % (prop, hit.get('what'), k))
  if out.class_hits:
    import json as _json
    with open(os.path.join(env.VERIF, 'known_findings.json')) as f:
      _kf = dict((e.get('key'), e) for e in _json.load(f).get('findings', []) if e.get('property') == prop)
    for k in sorted(out.class_hits):
      if k not in seen:
        seen.add(k)
        print('KNOWN-FINDING: property=%s %s [%s; %d paths]' % (prop, (_kf.get(k) or {}).get('what', k), k, out.class_hits[k]))
  rc = 0
  for i, v in enumerate(out.violations):
    path = os.path.join(env.VERIF, 'replays', '%s-%s-%d.json' % (prop, v['cond'], i))
    with open(path, 'w') as f:
      json.dump(v, f, indent=1)
    print('VIOLATION property=%s replay=%s' % (prop, path))
    _log('  counterexample: %s -> %s' % (v.get('call'), v.get('native_replay') or v.get('smt_cex')))
    rc = 1
  if rc == 0 and out.inconclusive:
    rc = 2
  for m in out.inconclusive:
    print('INCONCLUSIVE property=%s %s' % (prop, m))

  level = getattr(M, 'LEVEL', 'other')
  rule = getattr(M, 'RULE', 'each CrossHair iteration is one execution path of the harness, selected by z3 from the path tree; '
                 'non-trivial = the path reached the oracle comparison (reach() call), distinct by construction '
                 '(CrossHair never repeats a decision sequence)')
  samples = out.samples[:8] or [{'note': 'no twin witnesses in this run'}]
  cov = {
      'evaluations': out.paths,
      'distinct_nontrivial': out.reached,
      'rule': rule,
      'samples': samples,
      'obligations': out.obligations,
      'discharged': out.discharged,
      'exhaustive': bool(out.obligations and out.discharged == out.obligations and not out.inconclusive),
      'explanation': getattr(M, 'EXPLANATION', 'bounded symbolic execution of the real functions (CrossHair/z3): '
                             'every obligation is a condition whose path tree z3 exhausted ("confirmed over all paths") '
                             'within the stated input bounds; reachability twins must be refuted and replay natively'),
      'checker_cmd': './bin/check %s --tier %s' % (prop, ns.tier),
      'trusted_base': ['crosshair-tool 0.0.110', 'z3 5.1.0', 'CPython 3.12', 'harness + oracle in props/%s.py' % prop] + list(getattr(M, 'TRUSTED', [])),
      'functions_encoded': env.describe([f for X in [M] + AM if callable(getattr(X, 'FUNCTIONS', None)) for f in X.FUNCTIONS()]),
      'bounds': dict([(k, v) for X in [M] + AM for k, v in getattr(X, 'BOUNDS', {}).items()]),
      'outside_claim': [o for X in [M] + AM for o in getattr(X, 'OUTSIDE', [])],
      'stubs': [o for X in [M] + AM for o in getattr(X, 'STUBS', [])],
      'per_condition': out.per_cond,
      'reachability_witnesses_replayed': out.witnesses,
      'known_findings_hit': sorted(seen),
      'inconclusive': out.inconclusive[:20],
      'solver_time_s': round(out.cpu_s, 1),
      'conditions': [{'name': c.name, 'expect': c.expect, 'engine': c.engine, 'note': c.note} for m_ in [module] + also for c in condmod.REGISTRY[m_] if ns.tier in c.tiers],
  }
  if prep_info:
    cov['prepare'] = prep_info
  extra = getattr(M, 'extra_coverage', None)
  if extra:
    cov.update(extra(ns.tier, out))
  ev = {
      'property_id': prop, 'tier': ns.tier, 'seed': seed, 'level': level,
      'coverage': cov,
      'assumptions': list(getattr(M, 'ASSUMPTIONS', [])),
      'wall_s': round(wall, 2),
      'violations': len(out.violations),
  }
  os.makedirs(os.path.join(env.VERIF, 'evidence'), exist_ok=True)
  with open(os.path.join(env.VERIF, 'evidence', '%s.json' % prop), 'w') as f:
    json.dump(ev, f, indent=1, default=str)
  _log('%s tier=%s obligations=%d discharged=%d paths=%d reached=%d wall=%.1fs rc=%d' % (
      prop, ns.tier, out.obligations, out.discharged, out.paths, out.reached, wall, rc))
  sys.exit(rc)


if __name__ == '__main__':
  main()
