"""Shared environment stubs for harnesses that drive openhtf core code."""
import logging
import types

import vlib.env  # noqa: F401
from vlib import stubs

import openhtf
from openhtf import util as htf_util

CLOCK = stubs.FakeClock()


def _fake_time_module():
  import time as _real
  m = types.ModuleType('faketime')
  m.time = CLOCK.time
  m.monotonic = CLOCK.monotonic
  m.perf_counter = CLOCK.perf_counter
  m.sleep = CLOCK.sleep
  m.strftime = _real.strftime
  m.localtime = _real.localtime
  m.gmtime = _real.gmtime
  m.struct_time = _real.struct_time
  m.time_ns = lambda: int(CLOCK.time() * 1e9)
  return m


FAKETIME = _fake_time_module()


def install_clock(*modules):
  """Replaces the `time` module attribute in the given modules (and openhtf.util)
  by a strictly increasing counter.  CrossHair models time.time() as a fresh
  symbolic real; polling loops and timestamps never converge without this."""
  htf_util.time = FAKETIME
  for m in modules:
    if hasattr(m, 'time'):
      m.time = FAKETIME
  logging.time = FAKETIME


def reset_clock():
  CLOCK.now = 1000.0


def quiet_logging():
  """No log records are produced (log record creation calls time.time())."""
  logging.disable(logging.CRITICAL)
