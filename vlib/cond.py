"""Condition registry: a condition is a harness function with PEP-316 pre/post.

`@cond(...)` only records metadata; the function object is returned unchanged
so that CrossHair sees its real source and docstring.
"""
import collections
import dataclasses
from typing import Any, Callable, Dict, List, Optional, Sequence

REACHED = collections.Counter()   # filled by harness bodies via reach()
CALLS = collections.Counter()     # number of times a harness body started


def reach(tag: str = 'oracle') -> None:
  """Called by a harness at the point where the oracle comparison is made."""
  REACHED[tag] += 1


@dataclasses.dataclass
class Cond:
  fn: Callable
  name: str
  tiers: Sequence[str]              # tiers in which it runs
  timeout: float                    # crosshair per_condition_timeout (CPU s)
  expect: str                       # 'confirm' | 'refute' (reachability twin)
  split: Optional[Dict[str, Sequence[Any]]] = None  # domain split: param -> values
  split_thorough: Optional[Dict[str, Sequence[Any]]] = None
  timeout_thorough: Optional[float] = None
  per_path_timeout: Optional[float] = None
  note: str = ''
  engine: str = 'xh'                # 'xh' (CrossHair) | 'smt' (direct query fn)


REGISTRY: Dict[str, List[Cond]] = collections.defaultdict(list)


def cond(tiers=('quick', 'thorough'), timeout=60.0, expect='confirm', split=None,
         split_thorough=None, timeout_thorough=None, per_path_timeout=None,
         note='', engine='xh'):
  def deco(fn):
    mod = fn.__module__
    REGISTRY[mod].append(Cond(fn=fn, name=fn.__name__, tiers=tuple(tiers),
                              timeout=timeout, expect=expect, split=split,
                              split_thorough=split_thorough,
                              timeout_thorough=timeout_thorough,
                              per_path_timeout=per_path_timeout, note=note,
                              engine=engine))
    return fn
  return deco


# ---- known findings consulted by a condition itself ---------------------------------
# A monitor that can *classify* a violation (e.g. "the abort completed inside window W")
# asks is_known(property, key): if known_findings.json lists that class with status
# "known", the run is counted as a known hit (reported as KNOWN-FINDING by the driver) and
# the condition goes on; otherwise the condition fails and the violation is reported.
KNOWN_HITS = collections.Counter()
_KNOWN_CACHE = {}


def is_known(prop, key):
  import json
  import os
  if 'data' not in _KNOWN_CACHE:
    path = os.path.join(os.path.dirname(os.path.dirname(os.path.abspath(__file__))), 'known_findings.json')
    try:
      with open(path) as f:
        _KNOWN_CACHE['data'] = json.load(f).get('findings', [])
    except Exception:
      _KNOWN_CACHE['data'] = []
  for e in _KNOWN_CACHE['data']:
    if e.get('property') == prop and e.get('key') == key and e.get('status') == 'known':
      return True
  return False


def known_hit(key):
  KNOWN_HITS[key] += 1


def concrete(x, dom):
  """The concrete member of `dom` equal to the (possibly symbolic) x: one fork per member, after
  which the harness computes with a plain Python value (no symbolic arithmetic downstream)."""
  for c in dom:
    if x == c:
      return c
  raise AssertionError('outside domain')


def pin(x, lo, hi):
  """Concrete int equal to the (possibly symbolic) x in [lo, hi], found by bisection: O(log n) solver
  decisions per path instead of one per use.  The path tree of the condition is then the domain of the
  pinned variables, and what follows runs on plain Python ints."""
  lo, hi = int(lo), int(hi)
  while lo < hi:
    mid = (lo + hi) // 2
    if x <= mid:
      hi = mid
    else:
      lo = mid + 1
  if x != lo:
    raise AssertionError('outside domain')
  return lo


def untraced(fn, *a, **k):
  """Runs fn natively (outside CrossHair's tracer) when called under tracing.  Only for calls whose
  arguments are concrete (pinned): nothing symbolic may cross this boundary."""
  try:
    from crosshair.tracers import NoTracing, is_tracing
  except Exception:      # pragma: no cover
    return fn(*a, **k)
  if is_tracing():
    with NoTracing():
      return fn(*a, **k)
  return fn(*a, **k)
