"""Condition registry: a condition is a harness function with PEP-316 pre/post.

`@cond(...)` only records metadata; the function object is returned unchanged
so that CrossHair sees its real source and docstring.
"""
import collections
import dataclasses
from typing import Any, Callable, Dict, List, Optional, Sequence

REACHED = collections.Counter()   # filled by harness bodies via reach()
CALLS = collections.Counter()     # number of times a harness body started


def reach(tag: str = 'oracle') -> None:
  """Called by a harness at the point where the oracle comparison is made."""
  REACHED[tag] += 1


@dataclasses.dataclass
class Cond:
  fn: Callable
  name: str
  tiers: Sequence[str]              # tiers in which it runs
  timeout: float                    # crosshair per_condition_timeout (CPU s)
  expect: str                       # 'confirm' | 'refute' (reachability twin)
  split: Optional[Dict[str, Sequence[Any]]] = None  # domain split: param -> values
  split_thorough: Optional[Dict[str, Sequence[Any]]] = None
  timeout_thorough: Optional[float] = None
  per_path_timeout: Optional[float] = None
  note: str = ''
  engine: str = 'xh'                # 'xh' (CrossHair) | 'smt' (direct query fn)


REGISTRY: Dict[str, List[Cond]] = collections.defaultdict(list)


def cond(tiers=('quick', 'thorough'), timeout=60.0, expect='confirm', split=None,
         split_thorough=None, timeout_thorough=None, per_path_timeout=None,
         note='', engine='xh'):
  def deco(fn):
    mod = fn.__module__
    REGISTRY[mod].append(Cond(fn=fn, name=fn.__name__, tiers=tuple(tiers),
                              timeout=timeout, expect=expect, split=split,
                              split_thorough=split_thorough,
                              timeout_thorough=timeout_thorough,
                              per_path_timeout=per_path_timeout, note=note,
                              engine=engine))
    return fn
  return deco
