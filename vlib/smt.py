"""E2: direct z3 queries generated from the live objects.

  * PyFP   - symbolic interpreter for the small Python subset used by the
             arithmetic kernels of WithinPercent: the AST of the *live* source
             is evaluated over z3 IEEE-754 terms (RNE), so the formula is
             regenerated from /repo on every run.
  * sre2z3 - translation of a live compiled `re` pattern (via re._parser) to a
             z3 regular expression.
"""
import ast
import inspect
import math
import textwrap
import time

import z3


class Untranslatable(Exception):
  pass


class PyTypeError(Exception):
  """The Python code would raise TypeError on this path (e.g. None <= x)."""


# =============================================================== PyFP =========

class PyFP:
  """Evaluates methods/properties of an object whose attributes are z3 FP
  terms or Python constants.  `sort` is the FP sort (Float64 by default)."""

  def __init__(self, cls, attrs, sort=None):
    self.cls = cls
    self.attrs = dict(attrs)
    self.sort = sort if sort is not None else z3.Float64()
    self.rm = z3.RNE()
    self.encoded = []   # functions whose source was translated

  # -- helpers ---------------------------------------------------------------
  def const(self, x):
    if isinstance(x, bool):
      return x
    if isinstance(x, (int, float)):
      return z3.FPVal(float(x), self.sort)
    return x

  def is_fp(self, x):
    return z3.is_expr(x) and z3.is_fp(x)

  def tofp(self, x):
    if self.is_fp(x):
      return x
    if isinstance(x, bool):
      raise Untranslatable('bool in arithmetic')
    if isinstance(x, (int, float)):
      return z3.FPVal(float(x), self.sort)
    if x is None:
      raise PyTypeError('None in arithmetic/comparison')
    raise Untranslatable('operand %r' % (x,))

  def _src_ast(self, fn):
    src = textwrap.dedent(inspect.getsource(fn))
    self.encoded.append(fn)
    mod = ast.parse(src)
    fd = mod.body[0]
    if not isinstance(fd, ast.FunctionDef):
      raise Untranslatable('not a function')
    return fd

  # -- entry points ----------------------------------------------------------
  def get(self, name):
    """Value of self.<name>: instance attribute or property of the class."""
    if name in self.attrs:
      return self.attrs[name]
    member = inspect.getattr_static(self.cls, name)
    if isinstance(member, property):
      return self.call_fn(member.fget, {})
    raise Untranslatable('attribute %s' % name)

  def call(self, name, **kwargs):
    member = inspect.getattr_static(self.cls, name)
    if isinstance(member, property):
      return self.call_fn(member.fget, {})
    return self.call_fn(member, kwargs)

  def call_fn(self, fn, kwargs):
    fd = self._src_ast(fn)
    env = {}
    params = [a.arg for a in fd.args.args]
    for p in params[1:]:
      if p not in kwargs:
        raise Untranslatable('missing argument %s' % p)
      env[p] = kwargs[p]
    res = self.exec_block(fd.body, env)
    if res is _NORET:
      return None
    return res

  # -- statements ------------------------------------------------------------
  def exec_block(self, stmts, env):
    for i, st in enumerate(stmts):
      if isinstance(st, ast.Expr) and isinstance(st.value, ast.Constant):
        continue  # docstring
      if isinstance(st, ast.Return):
        return self.ev(st.value, env) if st.value is not None else None
      if isinstance(st, ast.If):
        test = self.truth(self.ev(st.test, env))
        rest = stmts[i + 1:]
        if isinstance(test, bool):
          branch = st.body if test else st.orelse
          r = self.exec_block(list(branch) + list(rest), dict(env))
          return r
        a = self.exec_block(list(st.body) + list(rest), dict(env))
        b = self.exec_block(list(st.orelse) + list(rest), dict(env))
        return self.ite(test, a, b)
      if isinstance(st, ast.Assign) and len(st.targets) == 1 and isinstance(st.targets[0], ast.Name):
        env[st.targets[0].id] = self.ev(st.value, env)
        continue
      raise Untranslatable('statement %s' % type(st).__name__)
    return _NORET

  def ite(self, c, a, b):
    if a is _NORET or b is _NORET:
      raise Untranslatable('path without return')
    if isinstance(a, bool) and isinstance(b, bool):
      return z3.If(c, z3.BoolVal(a), z3.BoolVal(b))
    if isinstance(a, bool):
      a = z3.BoolVal(a)
    if isinstance(b, bool):
      b = z3.BoolVal(b)
    if z3.is_bool(a) and z3.is_bool(b):
      return z3.If(c, a, b)
    if a is None or b is None:
      raise Untranslatable('None merged with a value under a symbolic condition')
    return z3.If(c, self.tofp(a), self.tofp(b))

  # -- expressions -----------------------------------------------------------
  def truth(self, v):
    """Python truthiness: bool for constants, z3 Bool for symbolic."""
    if v is None:
      return False
    if isinstance(v, (bool, int, float)):
      return bool(v)
    if z3.is_expr(v) and z3.is_bool(v):
      return v
    if self.is_fp(v):   # nonzero (NaN is truthy)
      return z3.Not(z3.fpIsZero(v))
    raise Untranslatable('truthiness of %r' % (v,))

  def ev(self, n, env):
    if isinstance(n, ast.Constant):
      return n.value
    if isinstance(n, ast.Name):
      if n.id in env:
        return env[n.id]
      if n.id in ('None',):
        return None
      raise Untranslatable('name %s' % n.id)
    if isinstance(n, ast.Attribute) and isinstance(n.value, ast.Name) and n.value.id == 'self':
      return self.get(n.attr)
    if isinstance(n, ast.BinOp):
      l, r = self.ev(n.left, env), self.ev(n.right, env)
      if not (self.is_fp(l) or self.is_fp(r)):
        if l is None or r is None:
          raise PyTypeError('None operand')
        # constant folding with Python semantics
        ops = {ast.Add: lambda a, b: a + b, ast.Sub: lambda a, b: a - b,
               ast.Mult: lambda a, b: a * b, ast.Div: lambda a, b: a / b}
        if type(n.op) in ops:
          return ops[type(n.op)](l, r)
        raise Untranslatable('operator %s' % type(n.op).__name__)
      l, r = self.tofp(l), self.tofp(r)
      if isinstance(n.op, ast.Add):
        return z3.fpAdd(self.rm, l, r)
      if isinstance(n.op, ast.Sub):
        return z3.fpSub(self.rm, l, r)
      if isinstance(n.op, ast.Mult):
        return z3.fpMul(self.rm, l, r)
      if isinstance(n.op, ast.Div):
        return z3.fpDiv(self.rm, l, r)   # divisor is a non-zero constant in the encoded kernels
      raise Untranslatable('operator %s' % type(n.op).__name__)
    if isinstance(n, ast.UnaryOp):
      v = self.ev(n.operand, env)
      if isinstance(n.op, ast.Not):
        t = self.truth(v)
        return (not t) if isinstance(t, bool) else z3.Not(t)
      if isinstance(n.op, ast.USub):
        return -v if not self.is_fp(v) else z3.fpNeg(v)
      raise Untranslatable('unary %s' % type(n.op).__name__)
    if isinstance(n, ast.Call) and isinstance(n.func, ast.Name) and n.func.id == 'abs' and len(n.args) == 1:
      v = self.ev(n.args[0], env)
      if self.is_fp(v):
        return z3.fpAbs(v)
      if v is None:
        raise PyTypeError('abs(None)')
      return abs(v)
    if (isinstance(n, ast.Call) and isinstance(n.func, ast.Attribute)
        and isinstance(n.func.value, ast.Name) and n.func.value.id == 'self'):
      # call of another method of the same object: translate it as well
      member = inspect.getattr_static(self.cls, n.func.attr)
      if isinstance(member, (staticmethod, classmethod)) or not callable(member):
        raise Untranslatable('call of %s' % n.func.attr)
      fd = self._src_ast(member)
      params = [a.arg for a in fd.args.args][1:]
      kwargs = {}
      for name, a in zip(params, n.args):
        kwargs[name] = self.ev(a, env)
      for kw in n.keywords:
        kwargs[kw.arg] = self.ev(kw.value, env)
      defaults = fd.args.defaults
      for name, d in zip(params[len(params) - len(defaults):], defaults):
        if name not in kwargs:
          kwargs[name] = self.ev(d, {})
      return self.call_fn(member, kwargs)
    if isinstance(n, ast.IfExp):
      t = self.truth(self.ev(n.test, env))
      if isinstance(t, bool):
        return self.ev(n.body if t else n.orelse, env)
      return self.ite(t, self.ev(n.body, env), self.ev(n.orelse, env))
    if isinstance(n, ast.Compare):
      vals = [self.ev(n.left, env)] + [self.ev(c, env) for c in n.comparators]
      parts = []
      for op, a, b in zip(n.ops, vals, vals[1:]):
        parts.append(self.cmp(op, a, b))
      return self.conj(parts)
    if isinstance(n, ast.BoolOp):
      vals = [self.truth(self.ev(v, env)) for v in n.values]
      # used only in boolean context in the encoded kernels
      if isinstance(n.op, ast.And):
        return self.conj(vals)
      return self.disj(vals)
    raise Untranslatable('expression %s' % ast.dump(n)[:80])

  def conj(self, parts):
    if any(p is False for p in parts):
      # Python short-circuits left to right; a later TypeError is not reached
      pass
    sym = [p for p in parts if not isinstance(p, bool)]
    if any(p is False for p in parts):
      return False
    if not sym:
      return True
    return z3.And(*sym) if len(sym) > 1 else sym[0]

  def disj(self, parts):
    if any(p is True for p in parts):
      return True
    sym = [p for p in parts if not isinstance(p, bool)]
    if not sym:
      return False
    return z3.Or(*sym) if len(sym) > 1 else sym[0]

  def cmp(self, op, a, b):
    if isinstance(op, (ast.Is, ast.IsNot)):
      if b is None or a is None:
        same = (a is None and b is None)
        return same if isinstance(op, ast.Is) else not same
      raise Untranslatable('is on non-None')
    if not (self.is_fp(a) or self.is_fp(b)):
      if a is None or b is None:
        if isinstance(op, (ast.Eq, ast.NotEq)):
          return (a == b) if isinstance(op, ast.Eq) else (a != b)
        raise PyTypeError('ordering comparison with None')
      table = {ast.Lt: a < b, ast.LtE: a <= b, ast.Gt: a > b, ast.GtE: a >= b,
               ast.Eq: a == b, ast.NotEq: a != b}
      return table[type(op)]
    a, b = self.tofp(a), self.tofp(b)
    if isinstance(op, ast.Lt):
      return z3.fpLT(a, b)
    if isinstance(op, ast.LtE):
      return z3.fpLEQ(a, b)
    if isinstance(op, ast.Gt):
      return z3.fpGT(a, b)
    if isinstance(op, ast.GtE):
      return z3.fpGEQ(a, b)
    if isinstance(op, ast.Eq):
      return z3.fpEQ(a, b)
    if isinstance(op, ast.NotEq):
      return z3.Not(z3.fpEQ(a, b))
    raise Untranslatable('comparison %s' % type(op).__name__)


_NORET = object()


def as_bool(x):
  return z3.BoolVal(x) if isinstance(x, bool) else x


def fp_to_py(model, var):
  """Python float for a z3 FP model value."""
  v = model.eval(var, model_completion=True)
  if z3.is_fp(v):
    if v.isNaN():
      return float('nan')
    if v.isInf():
      return float('-inf') if v.isNegative() else float('inf')
    s = str(v)
  # generic route: through the IEEE bit pattern
  bv = model.eval(z3.fpToIEEEBV(var), model_completion=True).as_long()
  import struct
  nb = var.sort().ebits() + var.sort().sbits()
  if nb == 64:
    return struct.unpack('<d', struct.pack('<Q', bv))[0]
  if nb == 32:
    return struct.unpack('<f', struct.pack('<I', bv))[0]
  if nb == 16:
    return struct.unpack('<e', struct.pack('<H', bv))[0]
  raise Untranslatable('fp width')


def check(formula_neg, timeout_s=120, logic_hint=None):
  """Is `formula_neg` (the negated property) satisfiable?  -> (status, model, secs)."""
  s = z3.Solver()
  s.set('timeout', int(timeout_s * 1000))
  s.add(formula_neg)
  t0 = time.time()
  r = s.check()
  dt = time.time() - t0
  st = str(r)
  return st, (s.model() if st == 'sat' else None), dt, s


# ============================================================= sre -> z3 ======

def _charset(items, ignorecase=False):
  """z3 regex for a character set given as sre IN items."""
  import re._constants as C  # type: ignore
  parts = []
  negate = False
  for op, av in items:
    if op is C.NEGATE:
      negate = True
    elif op is C.LITERAL:
      parts.append(_lit_char(av, ignorecase))
    elif op is C.RANGE:
      lo, hi = av
      parts.append(z3.Range(chr(lo), chr(hi)))
      if ignorecase:
        for a, b in ((ord('a'), ord('z')), (ord('A'), ord('Z'))):
          l2, h2 = max(lo, a), min(hi, b)
          if l2 <= h2:
            sw = (lambda c: c.upper() if c.islower() else c.lower())
            parts.append(z3.Range(sw(chr(l2)), sw(chr(h2))))
    elif op is C.CATEGORY:
      parts.append(_category(av))
    else:
      raise Untranslatable('charset item %s' % (op,))
  r = parts[0] if len(parts) == 1 else z3.Union(*parts)
  if negate:
    r = z3.Intersect(z3.AllChar(z3.ReSort(z3.StringSort())), z3.Complement(r))
  return r


def _lit_char(code, ignorecase):
  ch = chr(code)
  if ignorecase and ch.lower() != ch.upper():
    return z3.Union(z3.Re(ch.lower()), z3.Re(ch.upper()))
  return z3.Re(ch)


def _category(av):
  import re._constants as C  # type: ignore
  digit = z3.Range('0', '9')
  word = z3.Union(z3.Range('a', 'z'), z3.Range('A', 'Z'), digit, z3.Re('_'))
  space = z3.Union(*[z3.Re(c) for c in ' \t\n\r\x0b\x0c'])
  anyc = z3.AllChar(z3.ReSort(z3.StringSort()))
  table = {
      C.CATEGORY_DIGIT: digit,
      C.CATEGORY_NOT_DIGIT: z3.Intersect(anyc, z3.Complement(digit)),
      C.CATEGORY_WORD: word,
      C.CATEGORY_NOT_WORD: z3.Intersect(anyc, z3.Complement(word)),
      C.CATEGORY_SPACE: space,
      C.CATEGORY_NOT_SPACE: z3.Intersect(anyc, z3.Complement(space)),
  }
  if av not in table:
    raise Untranslatable('category %s' % (av,))
  return table[av]   # ASCII reading of \d \w \s: stated in the claim (inputs are ASCII-bounded)


def sre_to_z3(parsed, flags=0, on_at=None):
  """Translates a re._parser.SubPattern (list of (op, av)) into a z3 regex.

  Anchors (AT) are handled by `on_at(av, position_info)` if given; by default
  AT_BEGINNING / AT_BEGINNING_STRING are dropped when they are the first item
  (the caller states match-at-start semantics) and AT_END raises."""
  import re
  import re._constants as C  # type: ignore
  ic = bool(flags & re.IGNORECASE)
  out = []
  items = list(parsed)
  for idx, (op, av) in enumerate(items):
    if op is C.LITERAL:
      out.append(_lit_char(av, ic))
    elif op is C.NOT_LITERAL:
      out.append(z3.Intersect(z3.AllChar(z3.ReSort(z3.StringSort())), z3.Complement(_lit_char(av, ic))))
    elif op is C.ANY:
      if flags & re.DOTALL:
        out.append(z3.AllChar(z3.ReSort(z3.StringSort())))
      else:
        out.append(z3.Intersect(z3.AllChar(z3.ReSort(z3.StringSort())), z3.Complement(z3.Re('\n'))))
    elif op is C.IN:
      out.append(_charset(av, ic))
    elif op is C.BRANCH:
      _, alts = av
      out.append(z3.Union(*[sre_to_z3(a, flags, on_at) for a in alts]) if len(alts) > 1 else sre_to_z3(alts[0], flags, on_at))
    elif op is C.SUBPATTERN:
      _group, add_f, del_f, sub = av
      out.append(sre_to_z3(sub, (flags | add_f) & ~del_f, on_at))
    elif op in (C.MAX_REPEAT, C.MIN_REPEAT):
      lo, hi, sub = av
      inner = sre_to_z3(sub, flags, on_at)
      if hi is C.MAXREPEAT:
        r = z3.Star(inner) if lo == 0 else (z3.Plus(inner) if lo == 1 else z3.Concat(z3.Loop(inner, lo, lo), z3.Star(inner)))
      else:
        r = z3.Loop(inner, lo, hi)
      out.append(r)   # greedy vs lazy does not change the language
    elif op is C.AT:
      if on_at is not None:
        r = on_at(av, idx, len(items))
        if r is not None:
          out.append(r)
        continue
      if av in (C.AT_BEGINNING, C.AT_BEGINNING_STRING) and idx == 0:
        continue
      raise Untranslatable('anchor %s at position %d' % (av, idx))
    else:
      raise Untranslatable('sre op %s' % (op,))
  if not out:
    return z3.Re('')
  return out[0] if len(out) == 1 else z3.Concat(*out)


def parse_pattern(compiled):
  import re._parser as P  # type: ignore
  return P.parse(compiled.pattern, compiled.flags)
