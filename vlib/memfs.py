"""In-memory file-system model for C17 (crash points and I/O faults).

State: path -> bytes that are *on disk*.  File objects buffer writes; data
reaches the disk content only on flush()/close().  rename/move/replace on the
same file system is atomic.  Every operation that touches the file system is a
numbered FS operation: once the op counter reaches `crash_at` the process is
considered killed - that operation and all later ones have no effect (code in
`finally:` blocks still runs, as it would not after a real kill, but can no
longer change the disk), so the final `files` is the disk after the kill.
"""
import types


class FsFault(IOError):
  pass


class Unmodelled(Exception):
  """The code under test used a file-system primitive MemFS does not model: the check cannot decide
  (reported INCONCLUSIVE by the driver, never as a violation)."""


class _NS(types.SimpleNamespace):
  def __getattr__(self, name):
    raise Unmodelled('%s.%s is not modelled by MemFS' % (self.__dict__.get('_ns_name', 'fs'), name))


O_WRONLY, O_RDWR, O_CREAT, O_EXCL, O_TRUNC, O_APPEND = 1, 2, 64, 128, 512, 1024


class MemFS:
  def __init__(self, files=None, crash_at=None, fail_write_at=None, fail_close=False):
    self.files = dict(files or {})
    self.ops = 0
    self.crash_at = crash_at          # op index at which the process dies (None: never)
    self.crashed = False
    self.fail_write_at = fail_write_at  # index (0-based) of the write() call that raises
    self.fail_close = fail_close
    self.writes = 0
    self.tmp_counter = 0
    self.log = []

  # -- bookkeeping ----------------------------------------------------------
  def _op(self, name):
    """Returns True if the operation takes effect."""
    if self.crashed:
      return False
    if self.crash_at is not None and self.ops >= self.crash_at:
      self.crashed = True
      self.log.append('CRASH before ' + name)
      return False
    self.ops += 1
    self.log.append(name)
    return True

  # -- file objects ---------------------------------------------------------
  class _File:
    def __init__(self, fs, name, mode='wb', pos=None):
      self.fs = fs
      self.name = name
      self.mode = mode
      self.buf = b''
      self.closed = False
      self.pos = pos      # None: append at the end of the file (files created empty, 'a' mode); int: overwrite in place

    def write(self, data):
      fs = self.fs
      idx = fs.writes
      fs.writes += 1
      if fs.fail_write_at is not None and idx == fs.fail_write_at and not fs.crashed:
        raise FsFault('write failed (injected)')
      if isinstance(data, str):
        if 'b' in self.mode:
          raise TypeError('a bytes-like object is required, not str')
        data = data.encode()
      elif 'b' not in self.mode:
        raise TypeError('write() argument must be str, not bytes')
      self.buf += bytes(data)
      return len(data)

    def flush(self):
      if self.buf and self.fs._op('flush ' + self.name):
        cur = self.fs.files.get(self.name, b'')
        if self.pos is None:
          self.fs.files[self.name] = cur + self.buf
        else:              # a descriptor opened without O_TRUNC/O_APPEND overwrites the old bytes in place
          self.fs.files[self.name] = cur[:self.pos] + self.buf + cur[self.pos + len(self.buf):]
      if self.pos is not None:
        self.pos += len(self.buf)
      self.buf = b''

    def fileno(self):
      return 3

    def close(self):
      if self.closed:
        return
      self.closed = True
      if self.fs.fail_close and not self.fs.crashed:
        self.buf = b''
        raise FsFault('close/flush failed (injected)')
      self.flush()

    def __getattr__(self, name):
      raise Unmodelled('file.%s is not modelled by MemFS' % name)

    def __enter__(self):
      return self

    def __exit__(self, *a):
      self.close()
      return False

  def _create(self, name, mode):
    if self._op('create ' + name):
      self.files[name] = b''
    return MemFS._File(self, name, mode)

  # -- module namespaces handed to the code under test -----------------------
  def namespaces(self):
    fs = self

    def NamedTemporaryFile(mode='w+b', delete=True, **kw):
      fs.tmp_counter += 1
      while '/tmp/tmp%d' % fs.tmp_counter in fs.files:      # the real one opens with O_EXCL: always a fresh name
        fs.tmp_counter += 1
      return fs._create('/tmp/tmp%d' % fs.tmp_counter, 'wb' if 'b' in mode else 'w')

    fds = {}

    def os_open(path, flags, mode=0o777, **kw):
      if not (flags & (O_WRONLY | O_RDWR)):
        raise Unmodelled('os.open for reading is not modelled by MemFS')
      if path in fs.files:
        if flags & O_CREAT and flags & O_EXCL:
          raise FileExistsError(path)
        if flags & O_TRUNC and fs._op('truncate ' + path):
          fs.files[path] = b''
      else:
        if not flags & O_CREAT:
          raise FileNotFoundError(path)
        if fs._op('create ' + path):
          fs.files[path] = b''
      fd = 100 + len(fds)
      fds[fd] = (path, flags)
      return fd

    def fdopen(fd, mode='r', *a, **kw):
      path, flags = fds[fd]
      return MemFS._File(fs, path, mode, pos=(None if flags & O_APPEND or 'a' in mode else 0))

    def open_(name, mode='r', *a, **kw):
      if 'w' in mode:
        return fs._create(name, mode)
      if 'a' in mode:
        f = MemFS._File(fs, name, mode)
        return f
      raise Unmodelled('open() for reading is not modelled by MemFS')

    def rename(src, dst):
      if src not in fs.files and not fs.crashed:
        raise FileNotFoundError(src)
      if fs._op('rename %s -> %s' % (src, dst)):
        fs.files[dst] = fs.files.pop(src)
    replace = rename

    def remove(path):
      if path not in fs.files:
        if fs.crashed:
          return
        raise FileNotFoundError(path)
      if fs._op('remove ' + path):
        del fs.files[path]

    def copyfile(src, dst, **kw):
      # NOT atomic: truncate, then write, as the real one does
      if src not in fs.files and not fs.crashed:
        raise FileNotFoundError(src)
      if fs._op('truncate ' + dst):
        fs.files[dst] = b''
      if fs._op('copy-data %s -> %s' % (src, dst)):
        fs.files[dst] = fs.files.get(src, b'')
      return dst

    def move(src, dst, **kw):
      rename(src, dst)      # same file system: a rename
      return dst

    def fsync(fd):
      fs._op('fsync')

    def exists(path):
      return path in fs.files

    def stat(path):
      if path not in fs.files:
        raise FileNotFoundError(path)
      return types.SimpleNamespace(st_mode=0o100644, st_size=len(fs.files[path]), st_uid=0, st_gid=0)

    path_ns = _NS(_ns_name='os.path', exists=exists, isfile=exists, lexists=exists,
                                    dirname=lambda p: p.rsplit('/', 1)[0], basename=lambda p: p.rsplit('/', 1)[-1],
                                    join=lambda *a: '/'.join(a))
    os_ns = _NS(_ns_name='os', rename=rename, replace=replace, remove=remove, unlink=remove, fsync=fsync,
                path=path_ns, stat=stat, chmod=lambda *a, **k: None, chown=lambda *a, **k: None,
                error=OSError, open=os_open, fdopen=fdopen, O_WRONLY=O_WRONLY, O_RDWR=O_RDWR, O_CREAT=O_CREAT,
                O_EXCL=O_EXCL, O_TRUNC=O_TRUNC, O_APPEND=O_APPEND)
    shutil_ns = _NS(_ns_name='shutil', move=move, copyfile=copyfile, copy=copyfile, copy2=copyfile,
                                      copymode=lambda *a, **k: None, copystat=lambda *a, **k: None)
    tempfile_ns = _NS(_ns_name='tempfile', NamedTemporaryFile=NamedTemporaryFile)
    return types.SimpleNamespace(os=os_ns, shutil=shutil_ns, tempfile=tempfile_ns, open=open_)
