"""Bounded family T of node trees (DSL) and their construction as real openhtf nodes.

DSL (tuples):
  ('phase', name, opts)                    opts: measured, diag (diagnoser name), repeat_limit, ...
  ('seq', [nodes])
  ('group', setup[], main[], teardown[])
  ('subtest', name, [nodes])
  ('branch', name, cond, results, [nodes]) cond in ALL/ANY/NOT_ANY/NOT_ALL; results subset of ('A','B')
  ('cp_phase', name, which, action)        which in LAST/ALL/SUBTEST; action in STOP/FAIL_SUBTEST
  ('cp_diag', name, cond, results, action)
Tree shapes are enumerated, not symbolic (a tree is a Python object graph).
"""
from vlib import exe_harness as H

PB, PC, PG, PD = H.PB, H.PC, H.PG, H.PD


def P(i, **opts):
  o = {'measured': True}
  o.update(opts)
  return ('phase', 'p%d' % i, o)


def PDg(i, **opts):
  """Phase with a script-driven diagnoser d<i>."""
  return P(i, diag='d%d' % i, **opts)


_DIAGS = {}
_PHASES = {}


def _diag(name):
  if name not in _DIAGS:
    _DIAGS[name] = H.make_phase_diagnoser(name)
  return _DIAGS[name]


def _real_phase(node):
  _, name, opts = node
  key = (name, tuple(sorted((k, str(v)) for k, v in opts.items())))
  if key not in _PHASES:
    kw = {k: v for k, v in opts.items() if k not in ('measured', 'diag')}
    _PHASES[key] = H.make_phase(name, measured=opts.get('measured', True),
                                diag=[_diag(opts['diag'])] if opts.get('diag') else None, **kw)
  return _PHASES[key]


_RES = {'A': H.DR.A, 'B': H.DR.B, 'FA': H.DR.FA}
_COND = {'ALL': PB.DiagnosisCondition.on_all, 'ANY': PB.DiagnosisCondition.on_any,
         'NOT_ANY': PB.DiagnosisCondition.on_not_any, 'NOT_ALL': PB.DiagnosisCondition.on_not_all}
_ACTION = {'STOP': PD.PhaseResult.STOP, 'FAIL_SUBTEST': PD.PhaseResult.FAIL_SUBTEST}


def build(node):
  k = node[0]
  if k == 'phase':
    return _real_phase(node)
  if k == 'seq':
    return PC.PhaseSequence(tuple(build(n) for n in node[1]))
  if k == 'group':
    return PG.PhaseGroup(setup=[build(n) for n in node[1]], main=[build(n) for n in node[2]],
                         teardown=[build(n) for n in node[3]])
  if k == 'subtest':
    return PC.Subtest(node[1], *[build(n) for n in node[2]])
  if k == 'branch':
    return PB.BranchSequence(_COND[node[2]](*[_RES[r] for r in node[3]]), *[build(n) for n in node[4]], name=node[1])
  if k == 'cp_phase':
    ctor = {'LAST': PB.PhaseFailureCheckpoint.last, 'ALL': PB.PhaseFailureCheckpoint.all_previous,
            'SUBTEST': PB.PhaseFailureCheckpoint.subtest_previous}[node[2]]
    return ctor(node[1], action=_ACTION[node[3]])
  if k == 'cp_diag':
    return PB.DiagnosisCheckpoint(node[1], _COND[node[2]](*[_RES[r] for r in node[3]]), action=_ACTION[node[4]])
  raise AssertionError(k)


def build_test(tree, **options):
  t = H.make_test(*[build(n) for n in tree])
  t.configure(failure_exceptions=[H.ListedFailure], **options)
  return t


def phases_of(tree):
  out = []

  def walk(n):
    k = n[0]
    if k == 'phase':
      out.append(n)
    elif k == 'seq':
      [walk(x) for x in n[1]]
    elif k == 'group':
      [walk(x) for part in n[1:4] for x in part]
    elif k == 'subtest':
      [walk(x) for x in n[2]]
    elif k == 'branch':
      [walk(x) for x in n[4]]
  [walk(n) for n in tree]
  return out


# ---- the covering subset used by the quick tier (every node kind as a child of
# every collection kind at least once; <= 4 phases each) -------------------------
QUICK = [
    # 0: flat sequence
    [P(0), P(1), P(2)],
    # 1: group with setup / main / teardown
    [('group', [P(0)], [P(1)], [P(2)]), P(3)],
    # 2: subtest, then a phase after it
    [('subtest', 's', [P(0), P(1)]), P(2)],
    # 3: group inside a subtest, teardown after a failing main
    [('subtest', 's', [('group', [P(0)], [P(1)], [P(2)]), P(3)])],
    # 4: nested groups (inner group in main of outer)
    [('group', [], [('group', [P(0)], [P(1)], [P(2)])], [P(3)])],
    # 5: branch on a diagnosis of an earlier phase; phase after
    [PDg(0), ('branch', 'br', 'ANY', ('A', 'B'), [P(1)]), P(2)],
    # 6: checkpoints: LAST/STOP after a phase, ALL/STOP later
    [P(0), ('cp_phase', 'cpl', 'LAST', 'STOP'), P(1), ('cp_phase', 'cpa', 'ALL', 'STOP'), P(2)],
    # 7: subtest with SUBTEST/FAIL_SUBTEST checkpoint and a skipped tail; phase after
    [('subtest', 's', [P(0), ('cp_phase', 'cps', 'SUBTEST', 'FAIL_SUBTEST'), P(1)]), P(2)],
    # 8: diagnosis checkpoint + NOT_ALL branch inside a group teardown
    [PDg(0), ('group', [], [P(1)], [('branch', 'brt', 'NOT_ALL', ('A', 'B'), [P(2)])]), ('cp_diag', 'cpd', 'ALL', ('A',), 'STOP'), P(3)],
    # 9: nested subtests; subtest inside group teardown
    [('subtest', 'o', [P(0), ('subtest', 'i', [P(1)]), P(2)]), ('group', [], [P(3)], [('subtest', 't', [P(4)])])],
    # 10: group inside a branch inside a subtest; checkpoint first (no previous phases)
    [('cp_phase', 'cp0', 'LAST', 'STOP'), PDg(0), ('subtest', 's', [('branch', 'br', 'NOT_ANY', ('B',), [('group', [P(1)], [P(2)], [P(3)])])])],
    # 11: sequence nesting, repeat options on a phase, group in teardown of a group
    [('seq', [P(0, repeat_limit=2), ('seq', [P(1)])]), ('group', [], [P(2)], [('group', [], [P(3)], [P(4)])])],
    # 12: SUBTEST checkpoint after a nested subtest ran in between
    [('subtest', 'o', [P(0), ('subtest', 'i', [P(1)]), ('cp_phase', 'cps', 'SUBTEST', 'FAIL_SUBTEST'), P(2)]), P(3)],
    # 13: branch inside the teardown of a group inside a subtest
    [PDg(0), ('subtest', 's', [('group', [], [P(1)], [P(2), ('branch', 'bt', 'ANY', ('A', 'B'), [P(3)]), P(4)])])],
]

THOROUGH_EXTRA = [
    # branch kinds ALL / NOT_ANY with two diagnosing phases
    [PDg(0), PDg(1), ('branch', 'b1', 'ALL', ('A', 'B'), [P(2)]), ('branch', 'b2', 'NOT_ANY', ('A', 'B'), [P(3)])],
    # FAIL_SUBTEST checkpoint variants inside a subtest inside a group main
    [('group', [P(0)], [('subtest', 's', [P(1), ('cp_phase', 'c1', 'LAST', 'FAIL_SUBTEST'), P(2)])], [P(3)])],
    [('subtest', 's', [PDg(0), ('cp_diag', 'cd', 'ANY', ('A', 'FA'), 'FAIL_SUBTEST'), P(1), ('group', [P(2)], [P(3)], [P(4)])])],
    # group whose setup has two phases; teardown with two phases
    [('group', [P(0), P(1)], [P(2)], [P(3), P(4)])],
    # three-level nesting: group > subtest > group
    [('group', [], [('subtest', 's', [('group', [P(0)], [P(1)], [P(2)])])], [P(3)]), P(4)],
    # checkpoint in teardown, branch in setup
    [PDg(0), ('group', [('branch', 'bs', 'ANY', ('A',), [P(1)])], [P(2)], [('cp_phase', 'ct', 'ALL', 'STOP'), P(3)])],
    # options: stop_on_measurement_fail, repeat_on_measurement_fail, force_repeat
    [P(0, stop_on_measurement_fail=True), P(1, repeat_on_measurement_fail=True, repeat_limit=2), P(2, force_repeat=True, repeat_limit=2)],
    # subtest in a branch in a group's teardown
    [PDg(0), ('group', [], [P(1)], [('branch', 'bt', 'ANY', ('A', 'B'), [('subtest', 'st', [P(2), P(3)])])])],
]

ALL = QUICK + THOROUGH_EXTRA
