"""Catalogue of environment stubs.  Every stub used by a condition is part of
the claim of that condition and is listed in the property's STUBS."""
import sys


# ----------------------------------------------------------------- fmtshim ---

_PLAIN = (int, str, float, bool, type(None), bytes)
OBJECTS_OPAQUE = [False]


def _is_symbolic(x, depth=2):
  from crosshair.core import CrossHairValue  # type: ignore
  if isinstance(x, CrossHairValue):
    return True
  if OBJECTS_OPAQUE[0] and type(x) not in _PLAIN and type(x) not in (tuple, list, dict):
    return True   # arbitrary objects: their __str__ may touch symbolic attributes
  if depth and type(x) in (tuple, list):
    return any(_is_symbolic(y, depth - 1) for y in x)
  if depth and type(x) is dict:
    return any(_is_symbolic(y, depth - 1) for y in x.values())
  return False


import re as _re
_SPEC = _re.compile(r'%(\(\w*\))?[-#0 +]*(\*|\d+)?(\.(\*|\d+))?[hlL]?([diouxXeEfFgGcrsa%])')


def _check_percent_arity(template, args):
  """The shim does not format, but it keeps Python's arity errors (they are behaviour)."""
  if type(template) is not str:
    return
  specs = [m for m in _SPEC.finditer(template) if m.group(5) != '%']
  if any(m.group(1) for m in specs):
    return                      # mapping style
  need = len(specs) + sum(1 for m in specs if m.group(2) == '*') + sum(1 for m in specs if m.group(4) == '*')
  have = len(args) if type(args) is tuple else 1
  if have < need:
    raise TypeError('not enough arguments for format string')
  if have > need and not (type(args) is not tuple and need == 0 and type(args) in (dict,)):
    raise TypeError('not all arguments converted during string formatting')


def install_fmtshim(objects_opaque=False):
  """%-formatting / str.format with a symbolic argument returns '<fmt>'.

  CrossHair's own interception of str.__mod__ realises (concretises) symbolic
  arguments: every concrete value becomes a new path and the tree never closes.
  With the shim the *text* of log/exception messages that embed a symbolic value
  is not checked (stated in STUBS); with concrete arguments the real operator
  is used.  No-op when CrossHair is not loaded (native replay).
  """
  if objects_opaque:
    OBJECTS_OPAQUE[0] = True
  if 'crosshair.core' not in sys.modules:
    return False
  from crosshair import core  # type: ignore
  from crosshair.tracers import NoTracing  # type: ignore
  from crosshair.core import deep_realize  # type: ignore
  reg = core._PATCH_REGISTRATIONS
  orig_mod = reg.get(str.__mod__)
  orig_format = reg.get(str.format)
  if getattr(orig_mod, '_verif_shim', False):
    return True

  def shim_mod(self, other):
    with NoTracing():
      sym = _is_symbolic(self, 0) or _is_symbolic(other)
    if sym:
      with NoTracing():
        _check_percent_arity(self, other)
      return '<fmt>'
    other = deep_realize(other)
    with NoTracing():
      return str.__mod__(self, other)
  shim_mod._verif_shim = True

  def shim_format(self, /, *a, **kw):
    with NoTracing():
      sym = _is_symbolic(self, 0) or _is_symbolic(a) or _is_symbolic(kw)
    if sym:
      return '<fmt>'
    a = deep_realize(a)
    kw = deep_realize(kw)
    with NoTracing():
      return str.format(self, *a, **kw)
  shim_format._verif_shim = True

  reg[str.__mod__] = shim_mod
  orig_repr = reg.get(repr)

  def shim_repr(obj):
    with NoTracing():
      sym = _is_symbolic(obj, 1)
    if sym:
      return '<repr>'
    return orig_repr(obj) if orig_repr else repr(obj)
  reg[repr] = shim_repr
  # BINARY_OP % on a str is routed by an opcode interceptor through this class,
  # whose __mod__ runs inside CrossHair's own (untraced) code: route it to the shim.
  from crosshair import opcode_intercept as _oi  # type: ignore
  _oi.DeoptimizedPercentFormattingStr.__mod__ = lambda self, other: shim_mod(self.value, other)

  # f-strings, and '%s' % (a, b) with a literal tuple (compiled to FORMAT_VALUE /
  # BUILD_STRING since CPython 3.11), go through FormatStashingValue.
  def _opaque(v):
    with NoTracing():
      return _is_symbolic(v, 0)

  def fs_str(self):
    self.formatted = '<fmt>' if _opaque(self.value) else str(self.value)
    return ''

  def fs_format(self, fmt):
    self.formatted = '<fmt>' if _opaque(self.value) else format(self.value, fmt)
    return ''

  def fs_repr(self):
    self.formatted = '<fmt>' if _opaque(self.value) else repr(self.value)
    return ''
  _oi.FormatStashingValue.__str__ = fs_str
  _oi.FormatStashingValue.__format__ = fs_format
  _oi.FormatStashingValue.__repr__ = fs_repr
  reg[str.format] = shim_format
  return True


# ------------------------------------------------------------------- clock ---

class FakeClock:
  """Strictly increasing counter standing in for time.time/monotonic/sleep."""

  def __init__(self, start=1000.0, step=0.001):
    self.now = start
    self.step = step

  def time(self):
    self.now += self.step
    return self.now

  monotonic = time
  perf_counter = time

  def sleep(self, s=0):
    self.now += max(float(s), 0.0) + self.step

  def time_millis(self):
    return int(self.time() * 1000)
