"""One CrossHair analysis (or one native replay) in its own process.

  python -m vlib.xh_worker analyze <module> <cond> --timeout T [--fix k=v]... [--extra-pre EXPR]...
  python -m vlib.xh_worker replay  <module> <cond> --args JSON

Prints a single line `XHRESULT <json>`.
"""
import sys as _sys
_ARGV = list(_sys.argv[1:])
import argparse
import ast
import collections
import importlib
import inspect
import json
import os
import sys
import time
import traceback

import logging as _logging
_logging.getLogger().addHandler(_logging.NullHandler())
import vlib.env as env
from vlib import cond as condmod


def _annot_src(a):
  if a is inspect.Parameter.empty:
    raise ValueError('condition parameters must be annotated')
  if isinstance(a, type) and a.__module__ == 'builtins':
    return a.__name__
  return repr(a)


def _gen_wrapper(module, cname, fixes, extra_pres):
  """Writes a module with a sub-condition: same body, some inputs pinned."""
  M = importlib.import_module(module)
  fn = getattr(M, cname)
  sig = inspect.signature(fn)
  doc_lines = [l.rstrip() for l in (fn.__doc__ or '').splitlines()]
  doc_lines = [l for l in doc_lines if l.strip()]
  # pres mentioning only pinned names stay valid: pinned names are module globals.
  remaining = [p for p in sig.parameters.values() if p.name not in fixes]
  params = ', '.join('%s: %s' % (p.name, _annot_src(p.annotation)) for p in remaining)
  pre_extra = ['    pre: %s' % e for e in extra_pres]
  post_idx = next((i for i, l in enumerate(doc_lines) if l.strip().startswith('post')), len(doc_lines))
  doc = doc_lines[:post_idx] + pre_extra + doc_lines[post_idx:]
  tag = '_'.join('%s%s' % (k, str(v).replace('-', 'm').replace('.', 'p').replace("'", ''))
                 for k, v in sorted(fixes.items()))
  tag = ''.join(ch if ch.isalnum() or ch == '_' else '_' for ch in tag)[:80]
  h = abs(hash((tuple(sorted(fixes.items())), tuple(extra_pres)))) % 100000
  modname = 'gen_%s__%s__%s_%d' % (module.replace('.', '_'), cname, tag, h)
  gdir = os.path.join(env.WORK, 'gen')
  os.makedirs(gdir, exist_ok=True)
  path = os.path.join(gdir, modname + '.py')
  body = [
      'import typing',
      'import vlib.env',
      'import %s as _M' % module,
      "globals().update({k: v for k, v in vars(_M).items() if not k.startswith('__')})",
  ]
  for k, v in fixes.items():
    body.append('%s = %s' % (k, v))
  body.append('')
  body.append('def %s(%s) -> bool:' % (cname, params))
  body.append('    """')
  body.extend('    ' + l.strip() for l in doc)
  body.append('    """')
  body.append('    return _M.%s(%s)' % (
      cname, ', '.join('%s=%s' % (p, p) for p in sig.parameters)))
  with open(path, 'w') as f:
    f.write('\n'.join(body) + '\n')
  if gdir not in sys.path:
    sys.path.insert(0, gdir)
  G = importlib.import_module(modname)
  return getattr(G, cname), M


def _parse_call(message, cname):
  """Extracts the call expression `cname(...)` from a CrossHair message."""
  key = 'when calling '
  i = message.find(key)
  if i < 0:
    return None
  s = message[i + len(key):]
  for j in range(len(s), 0, -1):
    if s[j - 1] != ')':
      continue
    try:
      node = ast.parse(s[:j], mode='eval').body
    except SyntaxError:
      continue
    if isinstance(node, ast.Call):
      return s[:j], node
  return None


def _args_from_call(callsrc, node, fn, fixes):
  sig = inspect.signature(fn)
  names = [p for p in sig.parameters if p not in fixes]
  out = dict((k, str(v)) for k, v in fixes.items())
  for name, a in zip(names, node.args):
    out[name] = ast.get_source_segment(callsrc, a)
  for kw in node.keywords:
    out[kw.arg] = ast.get_source_segment(callsrc, kw.value)
  return out


def analyze(ns):
  from crosshair.options import AnalysisOptionSet
  from crosshair.core_and_libs import (AnalysisKind,
                                        MessageType, analyze_function,
                                        run_checkables)
  fixes = dict(kv.split('=', 1) for kv in ns.fix)
  t0 = time.time()
  res = {'module': ns.module, 'cond': ns.cond, 'fixes': fixes,
         'extra_pre': ns.extra_pre, 'timeout': ns.timeout}
  try:
    M = importlib.import_module(ns.module)
    orig = getattr(M, ns.cond)
    if fixes or ns.extra_pre:
      fn, _ = _gen_wrapper(ns.module, ns.cond, fixes, ns.extra_pre)
    else:
      fn = orig
    # Never short-circuit calls to functions that carry contracts (CrossHair would
    # replace the body of a called condition by its postcondition: vacuous).
    from crosshair import core as _core
    _core.ShortCircuitingContext.make_interceptor = lambda self, original: original
    # ... and never *enforce* contracts of called functions either: a failing
    # postcondition of a nested condition is otherwise silently ignored
    # ('Ignoring based on internal failed post condition').
    from crosshair import enforce as _enforce
    _enforce.EnforcedConditions.trace_call = lambda self, frame, fn, binding_target: None
    # CrossHair runs gc.collect() on every weakref dereference (20 ms each; the executor's
    # notify_update iterates a WeakSet constantly).  Harness objects keep their referents
    # alive, so plain dereferencing is deterministic here.
    import weakref as _weakref
    _core._PATCH_REGISTRATIONS.pop(_weakref.ref.__call__, None)
    # CrossHair bypasses functools.lru_cache (calls __wrapped__): a cache that changes behaviour
    # (e.g. memoising a function that must return a fresh object) would be invisible.  Keep the
    # real cache semantics; harness arguments reaching cached functions are concrete.
    import functools as _functools
    _core._PATCH_REGISTRATIONS.pop(_functools._lru_cache_wrapper.__call__, None)
    # Floats: bit-precise IEEE-754 binary64 only.  CrossHair's default also forks to a
    # real-number model whose paths it caps at 'unknown'; we never rely on it.
    from crosshair.libimpl import builtinslib as _bl
    if os.environ.get('VERIF_FLOAT_MODEL', 'ieee') == 'ieee':
      _bl._PYTYPE_TO_WRAPPER_TYPE[float] = ((_bl.PreciseIeeeSymbolicFloat, 1.0),)
    stats = collections.Counter()
    kw = dict(analysis_kind=(AnalysisKind.PEP316,), per_condition_timeout=ns.timeout,
              report_all=True, stats=stats)
    if ns.per_path_timeout:
      kw['per_path_timeout'] = ns.per_path_timeout
    opts = AnalysisOptionSet(**kw)
    condmod.REACHED.clear()
    condmod.KNOWN_HITS.clear()
    checkables = analyze_function(fn, opts)
    if not checkables:
      res.update(status='error', message='no checkable condition found (missing post:?)')
    else:
      msgs = run_checkables(checkables)
      states = [m.state for m in msgs]
      res['messages'] = [{'state': m.state.name, 'message': m.message, 'line': m.line} for m in msgs]
      bad = [m for m in msgs if m.state in (MessageType.POST_FAIL, MessageType.EXEC_ERR, MessageType.POST_ERR)]
      if bad:
        m = bad[0]
        res.update(status='refuted', message=m.message, kind=m.state.name,
                   traceback=(m.traceback or '')[-3000:])
        pc = _parse_call(m.message, ns.cond)
        if pc:
          res['call'] = pc[0]
          res['args'] = _args_from_call(pc[0], pc[1], orig, fixes)
      elif any(s in (MessageType.SYNTAX_ERR, MessageType.IMPORT_ERR) for s in states):
        res.update(status='error', message='; '.join(m.message for m in msgs))
      elif any(s == MessageType.PRE_UNSAT for s in states):
        res.update(status='pre_unsat', message='; '.join(m.message for m in msgs))
      elif any(s == MessageType.CANNOT_CONFIRM for s in states):
        res.update(status='unknown', message='not confirmed (timeout or unexplored paths)')
      elif states and all(s == MessageType.CONFIRMED for s in states):
        res.update(status='confirmed', message='confirmed over all paths')
      else:
        res.update(status='unknown', message='no verdict: %r' % [s.name for s in states])
    res['paths'] = int(stats.get('num_paths', 0))
    res['reached'] = dict(condmod.REACHED)
    res['known_hits'] = dict(condmod.KNOWN_HITS)
  except Exception as e:  # harness/import error
    res.update(status='error', message='%s: %s' % (type(e).__name__, e),
               traceback=traceback.format_exc()[-3000:])
  res['wall_s'] = round(time.time() - t0, 3)
  print('XHRESULT ' + json.dumps(res))


def replay(ns):
  """Native (untraced) run of the condition on concrete arguments."""
  res = {'module': ns.module, 'cond': ns.cond}
  t0 = time.time()
  try:
    M = importlib.import_module(ns.module)
    fn = getattr(M, ns.cond)
    argsrc = json.loads(ns.args)
    g = dict(vars(M))
    g.setdefault('float', float)
    args = {k: eval(v, g) for k, v in argsrc.items()}
    # Evaluate the preconditions natively as well.
    pre_ok = True
    for l in (fn.__doc__ or '').splitlines():
      l = l.strip()
      if l.startswith('pre:'):
        if not eval(l[4:].strip(), g, dict(args)):
          pre_ok = False
    res['pre_ok'] = pre_ok
    try:
      r = fn(**args)
      res['returned'] = bool(r)
      res['exception'] = None
    except Exception as e:
      res['returned'] = None
      res['exception'] = '%s: %s' % (type(e).__name__, e)
      res['traceback'] = traceback.format_exc()[-3000:]
    res['status'] = 'ok'
  except Exception as e:
    res.update(status='error', message='%s: %s' % (type(e).__name__, e),
               traceback=traceback.format_exc()[-3000:])
  res['wall_s'] = round(time.time() - t0, 3)
  print('XHRESULT ' + json.dumps(res))


def smt(ns):
  """Direct solver conditions (E2): the function builds and discharges its own queries."""
  res = {'module': ns.module, 'cond': ns.cond}
  t0 = time.time()
  try:
    M = importlib.import_module(ns.module)
    fn = getattr(M, ns.cond)
    r = fn(ns.tier)
    res.update(r)
    res['status'] = 'ok'
  except Exception as e:
    res.update(status='error', message='%s: %s' % (type(e).__name__, e),
               traceback=traceback.format_exc()[-3000:])
  res['wall_s'] = round(time.time() - t0, 3)
  print('XHRESULT ' + json.dumps(res, default=str))


def main():
  ap = argparse.ArgumentParser()
  sub = ap.add_subparsers(dest='mode', required=True)
  a = sub.add_parser('analyze')
  a.add_argument('module'); a.add_argument('cond')
  a.add_argument('--timeout', type=float, default=60.0)
  a.add_argument('--per-path-timeout', type=float, default=0.0)
  a.add_argument('--fix', action='append', default=[])
  a.add_argument('--extra-pre', action='append', default=[])
  r = sub.add_parser('replay')
  r.add_argument('module'); r.add_argument('cond')
  r.add_argument('--args', required=True)
  m = sub.add_parser('smt')
  m.add_argument('module'); m.add_argument('cond')
  m.add_argument('--tier', default='quick')
  ns = ap.parse_args(_ARGV)
  if ns.mode == 'analyze':
    analyze(ns)
  elif ns.mode == 'smt':
    smt(ns)
  else:
    replay(ns)


if __name__ == '__main__':
  main()
