"""Stubs for the USB protocol stack (C13-C16): SymStruct, FakeTransport, timeouts."""
import re
import struct as _real_struct

import vlib.env as env

_FMT = re.compile(r'^([<>])(\d*)I$')


class Chunk(tuple):
  """Immutable sequence of byte values (possibly symbolic ints) standing for bytes."""
  __slots__ = ()

  def __repr__(self):
    return 'Chunk(%s)' % (tuple.__repr__(self),)


def le32(w):
  return [(w // (256 ** j)) % 256 for j in range(4)]


class SymStruct:
  """Pure-Python stand-in for `struct` restricted to '<nI' / '>nI' formats.

  pack returns a Chunk of byte values computed by positional base-256
  arithmetic (works on symbolic ints); unpack accepts a Chunk, bytes or a str of
  code points < 256.  Any other format raises NotImplementedError (-> harness
  error, never a silent pass).  Validated against the real struct at import."""
  error = _real_struct.error

  @staticmethod
  def _parse(fmt):
    m = _FMT.match(fmt)
    if not m:
      raise NotImplementedError('SymStruct: unsupported format %r' % (fmt,))
    return m.group(1), int(m.group(2) or 1)

  @classmethod
  def calcsize(cls, fmt):
    _, n = cls._parse(fmt)
    return 4 * n

  @classmethod
  def pack(cls, fmt, *words):
    order, n = cls._parse(fmt)
    if len(words) != n:
      raise cls.error('pack expected %d items for packing (got %d)' % (n, len(words)))
    out = []
    for w in words:
      if not (0 <= w <= 0xFFFFFFFF):
        raise cls.error('argument out of range')
      b = le32(w)
      if order == '>':
        b.reverse()
      out.extend(b)
    return Chunk(out)

  @classmethod
  def unpack(cls, fmt, buf):
    order, n = cls._parse(fmt)
    if isinstance(buf, str):
      vals = [ord(c) for c in buf]
    else:
      vals = list(buf)
    if len(vals) != 4 * n:
      raise cls.error('unpack requires a buffer of %d bytes' % (4 * n))
    words = []
    for i in range(n):
      b = vals[4 * i:4 * i + 4]
      if order == '>':
        b = b[::-1]
      words.append(b[0] + 256 * b[1] + 65536 * b[2] + 16777216 * b[3])
    return tuple(words)


def validate_symstruct(n=2000, seed=3):
  import random
  rnd = random.Random(seed)
  for _ in range(n):
    ws = [rnd.choice([0, 1, 255, 256, 0xFFFFFFFF, rnd.getrandbits(32)]) for _ in range(6)]
    for fmt in ('<6I', '>6I'):
      real = _real_struct.pack(fmt, *ws)
      if bytes(SymStruct.pack(fmt, *ws)) != real:
        raise AssertionError('SymStruct.pack disagrees with struct on %r %r' % (fmt, ws))
      if SymStruct.unpack(fmt, real) != _real_struct.unpack(fmt, real):
        raise AssertionError('SymStruct.unpack disagrees with struct')
    w = rnd.getrandbits(32)
    if bytes(SymStruct.pack('>I', w)) != _real_struct.pack('>I', w):
      raise AssertionError('SymStruct >I')
  return n


class FakeTransport:
  """Scripted USB handle: reads come from a script, writes are recorded."""

  def __init__(self, reads=()):
    self.reads = list(reads)
    self.writes = []
    self.read_sizes = []
    self.closed = False

  def write(self, data, timeout_ms=None):
    self.writes.append(data)
    return len(data)

  def read(self, length, timeout_ms=None):
    self.read_sizes.append(length)
    if not self.reads:
      return ''
    item = self.reads.pop(0)
    if isinstance(item, BaseException) or (isinstance(item, type) and issubclass(item, BaseException)):
      raise item
    return item

  def close(self):
    self.closed = True

  def __str__(self):
    return '<FakeTransport>'


class ScriptTimeout:
  """PolledTimeout look-alike whose expiry answers come from a script."""

  def __init__(self, expired_script=(), default=False):
    self.script = list(expired_script)
    self.default = default
    self.polls = 0

  def has_expired(self):
    self.polls += 1
    if self.script:
      return self.script.pop(0)
    return self.default

  Poll = has_expired

  @property
  def remaining_ms(self):
    return 1000

  @property
  def remaining(self):
    return 1.0


_loaded = {}


def load_usb(modname):
  """Imports openhtf.plugs.usb.<modname> (real file) with the import stubs installed."""
  env.install_usb_stubs()
  import importlib
  if modname not in _loaded:
    _loaded[modname] = importlib.import_module('openhtf.plugs.usb.' + modname)
  return _loaded[modname]
