"""Synchronous executor harness shared by C01-C03, C05, C08-C11.

* The phase thread, the executor thread and plug tear-down threads run their
  bodies inline (see STUBS below); the code that runs *inside* them is the real
  code.
* Phase bodies, diagnosers and plugs are script driven: on every invocation
  they read their behaviour from the global SCRIPT (symbolic ints supplied by
  the condition) and append to the global call LOG.
"""
import logging
import sys

import vlib.env  # noqa: F401
from vlib import htfstub, stubs

import openhtf as htf
from openhtf import plugs as plugs_mod
from openhtf.core import base_plugs
from openhtf.core import diagnoses_lib
from openhtf.core import measurements as MS
from openhtf.core import phase_branches as PB
from openhtf.core import phase_collections as PC
from openhtf.core import phase_descriptor as PD
from openhtf.core import phase_executor as PE
from openhtf.core import phase_group as PG
from openhtf.core import test_descriptor as TD
from openhtf.core import test_executor as TE
from openhtf.core import test_record as TR
from openhtf.core import test_state as TS
from openhtf.util import configuration
from openhtf.util import console_output
from openhtf.util import logs as htf_logs
from openhtf.util import threads as htf_threads

CONF = configuration.CONF
PhaseResult = PD.PhaseResult

STUBS = [
    'SyncPhaseThread: PhaseExecutorThread.start/join/is_alive/kill patched on the class; start() records "started", the body (real KillableThread.run -> _thread_proc with its exception handling) runs at the first join(), i.e. after _current_phase_thread_lock was released as with a real thread; behaviour TIMEOUT = body does not finish: join returns, is_alive stays true and the fake clock jumps past the deadline',
    'SyncExecutorThread: TestExecutor.start() runs run() inline; join/wait return at once',
    'SyncTearDownThread: _PlugTearDownThread.start() runs inline; behaviour HANG = stays alive until kill()',
    'FakeClock for time.time/monotonic/sleep in phase_executor, test_executor, test_state, test_record, util, logs, threads',
    'logging disabled (log record creation calls time.time()); console banner printing replaced by no-ops',
]

htfstub.install_clock(PE, TE, TS, TR, TD, htf_logs, htf_threads, plugs_mod)
console_output.banner_print = lambda *a, **k: None
console_output.error_print = lambda *a, **k: None
console_output.cli_print = lambda *a, **k: None


# --------------------------------------------------------------- behaviours ---
B_NONE, B_CONTINUE, B_FAIL_AND_CONTINUE, B_REPEAT, B_SKIP, B_STOP, B_FAIL_SUBTEST, B_BADRESULT, B_EXC, B_FAILEXC, B_TIMEOUT = range(11)
B_NAMES = ('None', 'CONTINUE', 'FAIL_AND_CONTINUE', 'REPEAT', 'SKIP', 'STOP', 'FAIL_SUBTEST', 'bad-result', 'exception', 'failure-exception', 'timeout')


class PhaseError(Exception):
  pass


class ListedFailure(Exception):
  """Listed in failure_exceptions of the harness tests."""


from types import FunctionType as _FunctionType

BAD_VALUES = (42, 0, False, '', [], 0.0, 'done', (), {})


class Script:
  """Per-path script: behaviours etc. are looked up lazily so that unread entries cost no forks."""

  def __init__(self):
    self.reset()

  def reset(self):
    self.beh = {}          # phase name -> list of behaviour codes (per invocation)
    self.meas = {}         # phase name -> list of (set?, value) per invocation
    self.diag = {}         # diagnoser name -> list of codes per invocation
    self.count = {}        # name -> invocations so far
    self.log = []          # call log
    self.timeout_pending = False
    self.bad_index = 0

  def next(self, name):
    i = self.count.get(name, 0)
    self.count[name] = i + 1
    return i

  @staticmethod
  def _pick(seq, i, default):
    if not seq:
      return default
    v = seq[i] if i < len(seq) else seq[-1]
    if type(v) is _FunctionType:      # lazy entry: evaluated (and forked on) only when consulted
      v = v()
    return v

  def behaviour(self, name, i):
    return self._pick(self.beh.get(name, ()), i, B_NONE)

  def measurement(self, name, i):
    return self._pick(self.meas.get(name, ()), i, (False, 0))

  def diagnosis(self, name, i):
    return self._pick(self.diag.get(name, ()), i, 0)


SCRIPT = Script()


class DR(diagnoses_lib.DiagResultEnum):
  A = 'a'
  B = 'b'
  FA = 'fail-a'


def run_body(name, test, measured):
  """Common body of every generated phase."""
  i = SCRIPT.next(name)
  SCRIPT.log.append(('run', name, i))
  if measured:
    has, val = SCRIPT.measurement(name, i)
    if has:
      test.measurements[name + '_m'] = val
  b = SCRIPT.behaviour(name, i)
  if b == B_NONE:
    return None
  if b == B_CONTINUE:
    return PhaseResult.CONTINUE
  if b == B_FAIL_AND_CONTINUE:
    return PhaseResult.FAIL_AND_CONTINUE
  if b == B_REPEAT:
    return PhaseResult.REPEAT
  if b == B_SKIP:
    return PhaseResult.SKIP
  if b == B_STOP:
    return PhaseResult.STOP
  if b == B_FAIL_SUBTEST:
    return PhaseResult.FAIL_SUBTEST
  if b == B_BADRESULT:
    return BAD_VALUES[SCRIPT.bad_index]     # a non-PhaseResult value (truthy or falsy)
  if b == B_EXC:
    raise PhaseError('phase %s failed' % name)
  if b == B_FAILEXC:
    raise ListedFailure('phase %s failed (listed)' % name)
  if b == B_TIMEOUT:
    raise _BodyNeverReturns()
  raise AssertionError('unknown behaviour code')


class WouldHangForever(Exception):
  """The code under test would block forever (unbounded wait on something that never ends)."""


class _BodyNeverReturns(BaseException):
  """Internal: unwinds a body that models 'does not return before its deadline'."""


def make_phase(name, measured=True, diag=None, **options):
  """A phase whose body is driven by SCRIPT.  Built once, outside tracing."""
  def body(test):
    return run_body(name, test, measured)
  body.__name__ = name
  ph = PD.PhaseDescriptor.wrap_or_copy(body)
  opts = dict(name=name)
  opts.update(options)
  ph = PD.PhaseOptions(**opts)(ph)
  if measured:
    ph = PD.measures(MS.Measurement(name + '_m').in_range(0, 10, 2, 8))(ph)
  if diag:
    ph = PD.diagnose(*diag)(ph)
  return ph


def make_phase_diagnoser(name):
  """Script-driven phase diagnoser: 0 none, 1 result A, 2 result B, 3 failure result, 4 raises."""
  @diagnoses_lib.PhaseDiagnoser(DR, name=name)
  def diagnoser(phase_record):
    i = SCRIPT.next('diag:' + name)
    SCRIPT.log.append(('diag', name, i))
    code = SCRIPT.diagnosis(name, i)
    if code == 0:
      return None
    if code == 1:
      return diagnoses_lib.Diagnosis(DR.A)
    if code == 2:
      return diagnoses_lib.Diagnosis(DR.B)
    if code == 3:
      return diagnoses_lib.Diagnosis(DR.FA, is_failure=True)
    raise PhaseError('diagnoser %s failed' % name)
  return diagnoser


# ------------------------------------------------------ synchronous threads ---

HANG_TEST = [lambda plug: False]     # harness hook: does this plug's tearDown hang? (may consult symbolic script values)


def install_sync_threads():
  T = PE.PhaseExecutorThread

  def start(self):
    self._verif_started = True
    self._verif_done = False
    self._verif_alive = True
    SCRIPT.log.append(('thread-start', self._phase_desc.name))

  def join(self, timeout=None):
    if getattr(self, '_verif_done', True):
      return
    self._verif_done = True
    SCRIPT.timeout_pending = False
    try:
      self.run()            # real KillableThread.run(): lock, killed check, _thread_proc, handlers
      self._verif_alive = False
    except _BodyNeverReturns:
      # the body is still "running": the thread stays alive, time passes the deadline
      self._verif_alive = True
      htfstub.CLOCK.now += 10 ** 7

  def is_alive(self):
    return getattr(self, '_verif_alive', False)

  def kill(self):
    self._killed.set()
    SCRIPT.log.append(('kill', self._phase_desc.name))
    self._verif_alive = False     # the abandoned body is gone for the purposes of this harness

  T.start, T.join, T.is_alive, T.kill = start, join, is_alive, kill

  X = TE.TestExecutor

  def xstart(self):
    self._verif_alive = True
    try:
      self.run()
    finally:
      self._verif_alive = False

  X.start = xstart
  X.join = lambda self, timeout=None: None
  X.is_alive = lambda self: getattr(self, '_verif_alive', False)

  P = plugs_mod._PlugTearDownThread

  def pstart(self):
    self._verif_alive = True
    hang = HANG_TEST[0](self._plug)
    if hang:
      SCRIPT.log.append(('teardown-hang', type(self._plug).__name__))
      return
    try:
      self.run()
    finally:
      self._verif_alive = False

  def pkill(self):
    self._killed.set()
    # a tearDown blocked in a C-level call cannot be interrupted: the thread stays alive
    if not HANG_TEST[0](self._plug):
      self._verif_alive = False

  def pjoin(self, timeout=None):
    if timeout is None and getattr(self, '_verif_alive', False):
      raise WouldHangForever('join() without timeout on a tear-down thread that never ends')

  P.start = pstart
  P.join = pjoin
  P.is_alive = lambda self: getattr(self, '_verif_alive', False)
  P.kill = pkill


def quiet():
  htfstub.quiet_logging()


def skip_base_type_caches():
  """PhaseRecord.as_base_types (incremental base-type cache of the record, C10's subject) returns {}:
  a third of the per-path time of program-level conditions goes there."""
  TR.PhaseRecord.as_base_types = lambda self: {}


def reset_globals():
  """Everything a run can leave behind in process-global state."""
  SCRIPT.reset()
  htfstub.reset_clock()
  TD.Test.TEST_INSTANCES.clear()
  TD.Test.HANDLED_SIGINT_ONCE = False
  lg = logging.getLogger(htf_logs.LOGGER_PREFIX)
  for h in list(lg.handlers):
    if isinstance(h, htf_logs.RecordHandler):
      lg.removeHandler(h)
  CONF.reset()


def make_test(*nodes, **options):
  t = htf.Test(*nodes)
  if options:
    t.configure(**options)
  return t


def run_executor(test, test_start=None):
  """Runs the real TestExecutor inline on `test`; returns (executor, record, escaped_exception)."""
  ex = TE.TestExecutor(test.descriptor, 'uid:%d' % id(test), test_start, test._test_options, False)
  escaped = None
  try:
    ex._thread_proc()
  except Exception as e:       # the executor itself failed
    escaped = e
  rec = ex.test_state.test_record if ex.test_state else None
  try:
    if ex.test_state:
      ex.test_state.close()
  except Exception:
    pass
  return ex, rec, escaped
