"""Executable reading of docs/event_sequence.md (+ the statements of C01/C02/C05).

It interprets the tree DSL of vlib/trees.py (not the openhtf node objects) with
the same per-invocation script and produces: the expected call log (phase body
invocations in order), the phase / subtest / branch / checkpoint records, and
the expected test outcome.  It shares no code with openhtf/core/test_executor.py.
"""

from vlib import exe_harness as H

TERMINAL, CONTINUE = 'TERMINAL', 'CONTINUE'


class Spec:
  def __init__(self, script, soff=False, allow_unset=False, default_repeat_limit=3):
    self.s = script
    self.soff = soff
    self.au = allow_unset
    self.limit_default = default_repeat_limit
    self.calls = []          # ('run', phase, i)
    self.phases = []         # (name, outcome, subtest_name)
    self.subtests = []       # (name, outcome)
    self.branches = []       # (name, taken)
    self.checkpoints = []    # (name, result kind)
    self.diag_results = set()
    self.failure_diag = False
    self.first_terminal = None   # ('exception'|'failexc'|'timeout'|'stop')
    self.count = {}

  # ---- one phase -------------------------------------------------------------
  def _measure_ok(self, name, i, measured):
    """(pass?, marginal?) of the phase's measurement for invocation i."""
    if not measured:
      return True, False
    mset, mval = self.s.measurement(name, i)
    if not mset:
      return bool(self.au), False
    ok = 0 <= mval <= 10
    if getattr(self, '_cv_active', False):
      ok = ok and 0 <= mval <= 3          # conditional validator whose diagnosis result existed at phase start
    return ok, bool(ok and (mval <= 2 or mval >= 8))

  def phase(self, node, subtest, in_teardown):
    _, name, opts = node
    if not in_teardown and subtest is not None and subtest['fail']:
      self.phases.append((name, 'SKIP', subtest['name']))       # recorded as SKIP without running
      return CONTINUE
    limit = opts.get('repeat_limit') or self.limit_default
    n = 0
    kind = None
    while True:
      i = self.count.get(name, 0)
      self.count[name] = i + 1
      n += 1
      is_last = n >= limit
      self.calls.append(('run', name, i))
      b = self.s.behaviour(name, i)
      kind, outcome = self._invocation(name, i, b, opts, subtest, is_last)
      self.phases.append((name, outcome, subtest['name'] if subtest else None))
      again = (b == H.B_REPEAT) or (kind == 'timeout' and opts.get('repeat_on_timeout')) or opts.get('force_repeat') \
          or (opts.get('repeat_on_measurement_fail') and outcome == 'FAIL')
      if again and not is_last:
        continue
      break
    if b == H.B_REPEAT:
      kind = 'stop'                      # exceeding the repeat limit stops the test
    if self.soff and outcome == 'FAIL' and kind not in ('exception', 'failexc', 'timeout', 'stop'):
      kind = 'stop'                      # stop_on_first_failure
    if kind in ('exception', 'failexc', 'timeout', 'stop'):
      if self.first_terminal is None:
        self.first_terminal = kind      # the first terminal event decides
      return TERMINAL
    if kind == 'fail_subtest':
      subtest['fail'] = True
    return CONTINUE

  def _invocation(self, name, i, b, opts, subtest, is_last):
    if b in (H.B_NONE, H.B_CONTINUE):
      kind = 'continue'
    elif b == H.B_FAIL_AND_CONTINUE:
      kind = 'fail_and_continue'
    elif b == H.B_REPEAT:
      kind = 'repeat'
    elif b == H.B_SKIP:
      kind = 'skip'
    elif b == H.B_STOP:
      kind = 'stop'
    elif b == H.B_FAIL_SUBTEST:
      kind = 'fail_subtest' if subtest is not None else 'exception'
    elif b in (H.B_BADRESULT, H.B_EXC):
      kind = 'exception'
    elif b == H.B_FAILEXC:
      kind = 'failexc'
    else:
      kind = 'timeout'
    terminal = kind in ('exception', 'failexc', 'timeout', 'stop')
    hit = (kind == 'repeat' and is_last)
    self._cv_active = bool(opts.get('cv')) and ('A' in self.diag_results)
    m_ok, _ = self._measure_ok(name, i, opts.get('measured', True))
    if terminal or hit:
      outcome = 'ERROR'
    elif kind in ('repeat', 'skip'):
      outcome = 'SKIP'
    elif kind in ('fail_subtest', 'fail_and_continue'):
      outcome = 'FAIL'
    elif not m_ok:
      outcome = 'FAIL'
      if opts.get('stop_on_measurement_fail'):
        kind, terminal = 'stop', True
    else:
      outcome = 'PASS'
    dname = opts.get('diag')
    if dname and kind not in ('repeat', 'skip'):
      j = self.count.get('diag:' + dname, 0)
      self.count['diag:' + dname] = j + 1
      self.calls.append(('diag', dname, j))
      code = self.s.diagnosis(dname, j)
      if code == 1:
        self.diag_results.add('A')
      elif code == 2:
        self.diag_results.add('B')
      elif code == 3:
        self.diag_results.add('FA')
        self.failure_diag = True
        if outcome == 'PASS' and not terminal:
          outcome = 'FAIL'
      elif code == 4:
        if not terminal:
          kind, terminal = 'exception', True
        outcome = 'ERROR'
    if terminal and outcome != 'ERROR':
      outcome = 'ERROR'
    return kind, outcome

  # ---- conditions ------------------------------------------------------------
  def _cond(self, ckind, results):
    has = [r in self.diag_results for r in results]
    if ckind == 'ALL':
      return all(has)
    if ckind == 'ANY':
      return any(has)
    if ckind == 'NOT_ANY':
      return not any(has)
    return not all(has)

  def checkpoint(self, node, subtest, in_teardown):
    name = node[1]
    if not in_teardown and subtest is not None and subtest['fail']:
      self.checkpoints.append((name, 'SKIP'))
      return CONTINUE
    action = node[-1]
    err = False
    if node[0] == 'cp_phase':
      which = node[2]
      if not self.phases:
        err = True                       # the document is silent; today: an error of the checkpoint
        hit = False
      elif which == 'LAST':
        hit = self.phases[-1][1] == 'FAIL'
      elif which == 'SUBTEST' and subtest is not None:
        hit = any(o == 'FAIL' and st == subtest['name'] for (_, o, st) in self.phases)
      else:
        hit = any(o == 'FAIL' for (_, o, _) in self.phases)
    else:
      hit = self._cond(node[2], node[3])
    if not err and hit and action == 'FAIL_SUBTEST' and subtest is None:
      err = True                         # FAIL_SUBTEST outside a subtest is invalid
    if err:
      self.checkpoints.append((name, 'ERROR'))
      if self.first_terminal is None:
        self.first_terminal = 'exception'
      return TERMINAL
    if not hit:
      self.checkpoints.append((name, 'CONTINUE'))
      return CONTINUE
    self.checkpoints.append((name, action))
    if action == 'STOP':
      if self.first_terminal is None:
        self.first_terminal = 'stop'
      return TERMINAL
    subtest['fail'] = True
    return CONTINUE

  # ---- collections -----------------------------------------------------------
  def sequence(self, nodes, subtest, in_teardown):
    if in_teardown:
      ret = CONTINUE
      for n in nodes:                    # teardown: every node runs; the worst result is propagated
        if self.node(n, subtest, True) == TERMINAL:
          ret = TERMINAL
      return ret
    for n in nodes:                      # a sequence stops at its first terminal node
      if self.node(n, subtest, False) == TERMINAL:
        return TERMINAL
    return CONTINUE

  def node(self, n, subtest, in_teardown):
    k = n[0]
    if k == 'phase':
      return self.phase(n, subtest, in_teardown)
    if k in ('cp_phase', 'cp_diag'):
      return self.checkpoint(n, subtest, in_teardown)
    if k == 'seq':
      return self.sequence(n[1], subtest, in_teardown)
    if k == 'subtest':
      rec = {'name': n[1], 'fail': bool(subtest is not None and subtest['fail'])}
      r = self.sequence(n[2], rec, in_teardown)
      self.subtests.append((n[1], 'STOP' if r == TERMINAL else ('FAIL' if rec['fail'] else 'PASS')))
      return r                           # FAIL_SUBTEST never escapes its subtest
    if k == 'branch':
      if not in_teardown and subtest is not None and subtest['fail']:
        return CONTINUE                  # not run at all, no evaluation recorded
      taken = self._cond(n[2], n[3])
      r = self.sequence(n[4], subtest, in_teardown) if taken else CONTINUE
      self.branches.append((n[1], taken))
      return r
    if k == 'group':
      setup, main, teardown = n[1], n[2], n[3]
      skip_td = subtest is not None and subtest['fail']
      if setup:
        if self.sequence(setup, subtest, in_teardown) == TERMINAL:
          return TERMINAL                # setup did not complete: neither main nor teardown
        skip_td = skip_td or (subtest is not None and subtest['fail'])
      mret = self.sequence(main, subtest, in_teardown) if main else CONTINUE
      tret = self.sequence(teardown, subtest, not skip_td) if teardown else CONTINUE
      return TERMINAL if TERMINAL in (mret, tret) else CONTINUE
    raise AssertionError('unknown node kind %r' % (k,))

  # ---- whole test --------------------------------------------------------------
  def run(self, tree):
    self.sequence(tree, None, False)
    return self.outcome()

  def outcome(self):
    ft = self.first_terminal
    if ft == 'exception':
      return 'ERROR'
    if ft == 'failexc':
      return 'FAIL'
    if ft == 'timeout':
      return 'TIMEOUT'
    if ft == 'stop':
      return 'FAIL'
    if not self.phases:
      return 'PASS'                      # nothing declared / everything excluded: vacuous pass
    if any(o == 'FAIL' for (_, o, _) in self.phases):
      return 'FAIL'
    if all(o == 'SKIP' for (_, o, _) in self.phases):
      return 'ERROR'
    if self.failure_diag:
      return 'FAIL'
    if any(o == 'FAIL' for (_, o) in self.subtests):
      return 'FAIL'
    return 'PASS'
