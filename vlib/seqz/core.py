"""E3 - sequentialisation of real code (Lazy-CSeq style) with CrossHair as back end.

transform: a real function is rewritten (from inspect.getsource, on every run)
into a generator: `yield ('line', lineno)` before every statement, every call
`f(a)` becomes `(yield from __co(f, a))`, `with X: B` becomes explicit
__enter__/__exit__ calls through __co.  Calls into code outside the encoded set
stay atomic.  Cooperative primitives (Lock, RLock, Event, Condition, Queue,
Thread, time) return BLOCKED when they cannot proceed; __co then yields to the
scheduler and retries.  The scheduler takes its decisions from ints supplied by
the condition, so CrossHair quantifies over all schedules within the bound.
"""
import ast
import collections
import inspect
import textwrap
import types

try:
  from crosshair.tracers import NoTracing as _NoTracing, is_tracing as _is_tracing
except Exception:      # pragma: no cover
  _NoTracing, _is_tracing = None, None

# ------------------------------------------------------------------ runtime ---


class _Blocked:
  __slots__ = ('prim', 'deadline')

  def __init__(self, prim, deadline=None):
    self.prim = prim
    self.deadline = deadline


class AtomicBlocked(Exception):
  """A blocking operation could not proceed inside atomic (non-encoded) code."""


class Deadlock(Exception):
  pass


class StepBound(Exception):
  pass


_CO_DEPTH = [0]
SCHED = [None]


def in_co():
  return _CO_DEPTH[0] > 0


def blocked(prim, deadline=None):
  """Called by a cooperative primitive that cannot proceed."""
  if not in_co():
    raise AtomicBlocked('blocking operation %r inside atomic code' % (prim,))
  return _Blocked(prim, deadline)


def co(f, *a, **k):
  """Cooperative call: delegates to sequentialised callees, retries blocked primitives."""
  while True:
    _CO_DEPTH[0] += 1
    try:
      r = f(*a, **k)
    finally:
      _CO_DEPTH[0] -= 1
    if type(r) is _Blocked:
      yield ('blocked', r)
      continue
    break
  if type(r) is types.GeneratorType and (r.gi_code.co_name.startswith('seqz__') or r.gi_code in SEQZ_CODES):
    return (yield from r)
  return r


SEQZ_CODES = set()


def mark(fn):
  """Declares a hand-written generator function of a harness as a coroutine to be delegated to."""
  SEQZ_CODES.add(fn.__code__)
  return fn


# ---------------------------------------------------------------- transform ---

class _Rewriter(ast.NodeTransformer):
  def __init__(self):
    self.depth = 0

  # leave nested scopes atomic
  def visit_Lambda(self, node):
    return node

  def visit_ListComp(self, node):
    return node

  visit_SetComp = visit_DictComp = visit_GeneratorExp = visit_ListComp

  def visit_FunctionDef(self, node):
    if self.depth > 0:
      return node                      # nested def: atomic
    self.depth += 1
    node.body = self._block(node.body)
    self.depth -= 1
    node.decorator_list = []
    node.name = 'seqz__' + node.name
    node.returns = None
    return node

  def _block(self, stmts):
    out = []
    for st in stmts:
      if isinstance(st, ast.Expr) and isinstance(st.value, ast.Constant) and isinstance(st.value.value, str):
        continue                       # docstring
      y = ast.Expr(ast.Yield(ast.Tuple([ast.Constant('line'), ast.Constant(st.lineno)], ast.Load())))
      out.append(ast.copy_location(y, st))
      res = self.visit(st)
      if isinstance(res, list):
        out.extend(res)
      else:
        out.append(res)
    return out or [ast.Pass()]

  def generic_block_visit(self, node):
    for field in ('body', 'orelse', 'finalbody'):
      if hasattr(node, field) and isinstance(getattr(node, field), list) and getattr(node, field):
        setattr(node, field, self._block(getattr(node, field)))
    if hasattr(node, 'handlers'):
      for h in node.handlers:
        h.body = self._block(h.body)
    return node

  def visit_If(self, node):
    node.test = self.visit(node.test)
    return self.generic_block_visit(node)

  def visit_While(self, node):
    node.test = self.visit(node.test)
    return self.generic_block_visit(node)

  def visit_For(self, node):
    node.iter = self.visit(node.iter)
    return self.generic_block_visit(node)

  def visit_Try(self, node):
    return self.generic_block_visit(node)

  def visit_With(self, node):
    # with A as x, B as y: BODY   ->  nested explicit enter/exit through __co
    body = self._block(node.body)
    for item in reversed(node.items):
      body = self._with_one(item, body, node)
    return body

  _n = 0

  def _with_one(self, item, body, node):
    _Rewriter._n += 1
    cm, ok, exc = '__cm%d' % self._n, '__ok%d' % self._n, '__exc%d' % self._n
    src = '''
%(cm)s = None
%(ok)s = True
try:
  pass
except BaseException as %(exc)s:
  %(ok)s = False
  if not (yield from __co(type(%(cm)s).__exit__, %(cm)s, type(%(exc)s), %(exc)s, %(exc)s.__traceback__)):
    raise
finally:
  if %(ok)s:
    yield from __co(type(%(cm)s).__exit__, %(cm)s, None, None, None)
''' % dict(cm=cm, ok=ok, exc=exc)
    tmpl = ast.parse(src).body
    assign_cm, assign_ok, tr = tmpl
    assign_cm.value = self.visit(item.context_expr)
    enter = ast.parse('(yield from __co(type(%s).__enter__, %s))' % (cm, cm), mode='eval').body
    if item.optional_vars is not None:
      enter_stmt = ast.Assign([item.optional_vars], enter)
    else:
      enter_stmt = ast.Expr(enter)
    tr.body = body
    out = [assign_cm, enter_stmt, assign_ok, tr]
    for n in out:
      ast.copy_location(n, node)
      ast.fix_missing_locations(n)
    return out

  def visit_Call(self, node):
    self.generic_visit(node)
    # super() needs the class cell: keep such calls as they are (atomic)
    if isinstance(node.func, ast.Name) and node.func.id in ('super', 'isinstance', 'len', 'type', 'getattr', 'hasattr', 'min', 'max', 'str', 'repr'):
      return node
    # frame-sensitive calls must stay in the caller's frame (sys.exc_info() inside an except block)
    if isinstance(node.func, ast.Attribute) and isinstance(node.func.value, ast.Name) and node.func.value.id in ('sys', 'traceback'):
      return node
    new = ast.Call(ast.Name('__co', ast.Load()), [node.func] + node.args, node.keywords)
    return ast.copy_location(ast.YieldFrom(new), node)


def sequentialize(fn, extra_globals=None):
  """Returns a generator function built from the live source of `fn`."""
  src = textwrap.dedent(inspect.getsource(fn))
  tree = ast.parse(src)
  fd = tree.body[0]
  if not isinstance(fd, ast.FunctionDef):
    raise TypeError('not a function: %r' % (fn,))
  first_line = fn.__code__.co_firstlineno
  ast.increment_lineno(tree, first_line - 1)
  rw = _Rewriter()
  new_fd = rw.visit(fd)
  mod = ast.Module([new_fd], [])
  ast.fix_missing_locations(mod)
  g = dict(fn.__globals__)
  g['__co'] = co
  if extra_globals:
    g.update(extra_globals)
  code = compile(mod, inspect.getsourcefile(fn) or '<seqz>', 'exec')
  ns = {}
  exec(code, g, ns)
  out = ns[new_fd.name]
  # closures (super() without args) are not supported: such calls stay atomic via __class__ lookup failure
  out.__seqz__ = True
  out.__wrapped_original__ = fn
  return out


def encode_methods(cls, names, extra_globals=None):
  """Replaces methods of `cls` by their sequentialised versions (in this process only).
  Returns the list of original functions (for evidence)."""
  originals = []
  for n in names:
    f = inspect.getattr_static(cls, n)
    if isinstance(f, (staticmethod, classmethod)):
      raise TypeError('static/class methods are not supported: %s' % n)
    if getattr(f, '__seqz__', False):
      continue
    originals.append(f)
    setattr(cls, n, sequentialize(f, extra_globals))
  return originals


def encode_subclass(cls, names, extra_globals=None, name=None):
  """Returns (subclass of `cls` whose listed methods are sequentialised, originals).  The class
  itself is left untouched, so E1 conditions in the same process keep using the real methods."""
  originals, ns = [], {}
  for n in names:
    f = inspect.getattr_static(cls, n)
    originals.append(f)
    ns[n] = sequentialize(f, extra_globals)
  sub = type(name or ('Seq' + cls.__name__), (cls,), ns)
  return sub, originals


# ---------------------------------------------------------------- scheduler ---

class Co:
  def __init__(self, name, gen):
    self.name = name
    self.gen = gen
    self.alive = True
    self.blocked_on = None       # _Blocked or None
    self.idle = False            # blocked and re-tested without progress since the last state change
    self.pending_exc = None
    self.result = None
    self.exc = None
    self.steps = 0
    self.started = False


class Sched:
  """Runs coroutines one step at a time.  `preempt` is a list of (step, target) pairs:
  before global step number `step` the scheduler switches to coroutine `target` (if runnable).
  When the current coroutine blocks or ends, the lowest-index runnable coroutine is chosen
  unless `pick` (list of ints) supplies choices."""

  def __init__(self, preempt=(), pick=(), max_steps=400, time_skip=False, untraced=False):
    self.cos = []
    # untraced: coroutine steps run outside CrossHair's tracer (natively).  Only for harnesses whose
    # coroutines see concrete data only: the symbolic variables are then exactly the schedule ints
    # (preempt steps/targets, picks), which are compared - under tracing - in run().
    self.untraced = untraced
    self.time_skip = time_skip  # seconds: a preemption whose target is in a timed wait ending within this span lets the wait expire first
    self.now = 0.0
    self.preempt = list(preempt)
    self.pick = list(pick)
    self.max_steps = max_steps
    self.step = 0
    self.trace = []
    self.cur = None
    self.deadlocked = False
    self.hooks = {}           # global step -> callable run by the scheduler before that step
    SCHED[0] = self

  def spawn(self, name, gen):
    c = Co(name, gen)
    self.cos.append(c)
    return c

  def current(self):
    return self.cur

  def throw_into(self, co_, exc):
    if co_.alive:
      co_.pending_exc = exc

  def _runnable(self):
    return [c for c in self.cos if c.alive and not (c.blocked_on is not None and c.idle)]

  def _wake_all(self):
    for c in self.cos:
      c.idle = False

  def _step(self, c):
    if self.untraced and _NoTracing is not None and _is_tracing():
      with _NoTracing():
        return self._step_impl(c)
    return self._step_impl(c)

  def _step_impl(self, c):
    self.cur = c
    self.step += 1
    c.steps += 1
    try:
      if c.pending_exc is not None and c.started:
        exc, c.pending_exc = c.pending_exc, None
        c.blocked_on = None
        ev = c.gen.throw(exc)
      else:
        c.started = True
        ev = next(c.gen)
    except StopIteration as si:
      c.alive = False
      c.result = si.value
      c.blocked_on = None
      self.trace.append((c.name, 'end'))
      self._wake_all()
      return
    except BaseException as e:     # the coroutine died with an exception
      c.alive = False
      c.exc = e
      c.blocked_on = None
      self.trace.append((c.name, 'exc:' + type(e).__name__))
      self._wake_all()
      return
    if ev[0] == 'blocked':
      was = c.blocked_on is not None
      c.blocked_on = ev[1]
      c.idle = True               # stays idle until some other coroutine makes a step
      if not was:
        self.trace.append((c.name, 'blocked'))
        for o in self.cos:        # a call that newly blocks may have had an effect (Condition.wait releases its lock)
          if o is not c:
            o.idle = False
    else:
      c.blocked_on = None
      self.trace.append((c.name, ev[1]))
      for o in self.cos:
        if o is not c:
          o.idle = False

  def run(self):
    cur = None
    while True:
      if self.step >= self.max_steps:
        raise StepBound('step bound %d exhausted' % self.max_steps)
      runnable = self._runnable()
      if not runnable:
        alive = [c for c in self.cos if c.alive]
        if not alive:
          return
        # everybody is blocked: advance virtual time to the earliest deadline, or deadlock
        deadlines = [c.blocked_on.deadline for c in alive if c.blocked_on is not None and c.blocked_on.deadline is not None]
        if not deadlines:
          self.deadlocked = True
          raise Deadlock('all coroutines blocked: %s' % [(c.name) for c in alive])
        self.now = max(self.now, min(deadlines))
        self._wake_all()
        continue
      hk = self.hooks.pop(self.step, None)
      if hk is not None:
        if self.untraced and _NoTracing is not None and _is_tracing():
          with _NoTracing():
            hk()
        else:
          hk()
        self._wake_all()
        runnable = self._runnable()
      # preemption requested before this step?
      target = None
      for (st, tg) in self.preempt:
        if st == self.step:
          target = tg
      nxt = None
      if target is not None:
        for i, c in enumerate(self.cos):
          if i == target and c in runnable:
            nxt = c
          elif i == target and self.time_skip and c.alive and c.blocked_on is not None and c.blocked_on.deadline is not None \
              and c.blocked_on.deadline - self.now <= self.time_skip:
            nxt = c
        if nxt is not None and self.time_skip and nxt.blocked_on is not None and nxt.blocked_on.deadline is not None \
            and nxt.blocked_on.deadline - self.now <= self.time_skip:
          # the other threads are slow: the target's timed wait expires although they could still run
          self.now = max(self.now, nxt.blocked_on.deadline)
          nxt.idle = False
      if nxt is None:
        if cur is not None and cur in runnable:
          nxt = cur
        else:
          choice = self.pick.pop(0) if self.pick else 0
          nxt = runnable[choice % len(runnable)]
      cur = nxt
      self._step(cur)
