"""Cooperative stand-ins for threading / queue / time used by sequentialised code."""
import collections
import types

from vlib.seqz import core


def _sched():
  return core.SCHED[0]


class Lock:
  def __init__(self):
    self.owner = None

  def acquire(self, blocking=True, timeout=-1):
    me = _sched().current()
    if self.owner is None:
      self.owner = me
      self._clear_wait(me)
      return True
    if not blocking:
      return False
    if timeout is not None and timeout >= 0:
      dl = self._deadline(me, timeout)
      if _sched().now >= dl:
        self._clear_wait(me)
        return False
      return core.blocked(self, dl)
    return core.blocked(self)

  def _deadline(self, me, timeout):
    w = getattr(me, 'waits', None)
    if w is None:
      w = me.waits = {}
    if id(self) not in w:
      w[id(self)] = _sched().now + timeout
    return w[id(self)]

  def _clear_wait(self, me):
    w = getattr(me, 'waits', None)
    if w:
      w.pop(id(self), None)

  def release(self):
    if self.owner is None:
      raise RuntimeError('release unlocked lock')
    self.owner = None

  def locked(self):
    return self.owner is not None

  def __enter__(self):
    return self.acquire()

  def __exit__(self, *a):
    self.release()
    return False


class RLock(Lock):
  def __init__(self):
    super().__init__()
    self.count = 0

  def acquire(self, blocking=True, timeout=-1):
    me = _sched().current()
    if self.owner is me:
      self.count += 1
      return True
    r = Lock.acquire(self, blocking, timeout)
    if r is True:
      self.count = 1
    return r

  def release(self):
    if self.owner is not _sched().current():
      raise RuntimeError('cannot release un-acquired lock')
    self.count -= 1
    if self.count == 0:
      self.owner = None


class Event:
  def __init__(self):
    self.flag = False

  def is_set(self):
    return self.flag

  isSet = is_set

  def set(self):
    self.flag = True

  def clear(self):
    self.flag = False

  def wait(self, timeout=None):
    if self.flag:
      Lock._clear_wait(self, _sched().current())
      return True
    me = _sched().current()
    if timeout is not None:
      dl = Lock._deadline(self, me, timeout)
      if _sched().now >= dl:
        Lock._clear_wait(self, me)
        return False
      return core.blocked(self, dl)
    return core.blocked(self)


class Condition:
  def __init__(self, lock=None):
    self.lock = lock or RLock()
    self.waiters = []          # [co, notified?]

  def acquire(self, *a, **k):
    return self.lock.acquire(*a, **k)

  def release(self):
    return self.lock.release()

  def __enter__(self):
    return self.lock.acquire()

  def __exit__(self, *a):
    self.lock.release()
    return False

  def wait(self, timeout=None):
    me = _sched().current()
    st = getattr(me, 'cond_state', None)
    if st is None or st[0] is not self:
      # first call: release the lock and start waiting
      if self.lock.owner is not me:
        raise RuntimeError('cannot wait on un-acquired lock')
      saved = getattr(self.lock, 'count', 1)
      self.lock.owner = None
      if hasattr(self.lock, 'count'):
        self.lock.count = 0
      ent = [me, False]
      self.waiters.append(ent)
      dl = None if timeout is None else _sched().now + timeout
      me.cond_state = (self, ent, saved, dl)
      return core.blocked(self, dl)
    _, ent, saved, dl = st
    timed_out = dl is not None and _sched().now >= dl
    if not ent[1] and not timed_out:
      return core.blocked(self, dl)
    # woken (or timed out): re-acquire the lock
    if self.lock.owner is not None and self.lock.owner is not me:
      return core.blocked(self.lock)
    if ent in self.waiters:
      self.waiters.remove(ent)
    self.lock.owner = me
    if hasattr(self.lock, 'count'):
      self.lock.count = saved
    me.cond_state = None
    return ent[1]

  def notify(self, n=1):
    k = 0
    for ent in self.waiters:
      if not ent[1] and k < n:
        ent[1] = True
        k += 1

  def notify_all(self):
    self.notify(len(self.waiters))

  notifyAll = notify_all


class Empty(Exception):
  pass


class Queue:
  def __init__(self, maxsize=0):
    self.q = collections.deque()

  def put(self, item, block=True, timeout=None):
    self.q.append(item)

  def get(self, block=True, timeout=None):
    me = _sched().current()
    if self.q:
      Lock._clear_wait(self, me)
      return self.q.popleft()
    if not block:
      raise Empty()
    if timeout is not None:
      dl = Lock._deadline(self, me, timeout)
      if _sched().now >= dl:
        Lock._clear_wait(self, me)
        raise Empty()
      return core.blocked(self, dl)
    return core.blocked(self)

  def get_nowait(self):
    return self.get(False)

  def empty(self):
    return not self.q

  def qsize(self):
    return len(self.q)


class _Time:
  @staticmethod
  def time():
    return 1000.0 + _sched().now

  monotonic = time

  @staticmethod
  def sleep(s):
    me = _sched().current()
    dl = Lock._deadline(_Time, me, max(s, 0) if s else 0)
    if _sched().now >= dl:
      Lock._clear_wait(_Time, me)
      return None
    return core.blocked(_Time, dl)


time = _Time


class Thread:
  """Cooperative thread: start() registers run() as a coroutine."""
  _count = 0

  def __init__(self, group=None, target=None, name=None, args=(), kwargs=None, daemon=None):
    Thread._count += 1
    self._target, self._args, self._kwargs = target, args, kwargs or {}
    self._name = name or 'T%d' % Thread._count
    self.co = None
    self.ident = None
    self.daemon = daemon

  @property
  def name(self):
    return self._name

  def start(self):
    def body():
      r = self.run()
      if isinstance(r, types.GeneratorType):
        r = yield from r
      return r
    self.ident = 1000 + Thread._count
    self.co = _sched().spawn(self._name if isinstance(self._name, str) else 'thread', body())

  def run(self):
    if self._target:
      return self._target(*self._args, **self._kwargs)

  def is_alive(self):
    return self.co is not None and self.co.alive

  def join(self, timeout=None):
    if self.co is None or not self.co.alive:
      Lock._clear_wait(self, _sched().current())
      return None
    me = _sched().current()
    if timeout is not None:
      dl = Lock._deadline(self, me, timeout)
      if _sched().now >= dl:
        Lock._clear_wait(self, me)
        return None
      return core.blocked(self, dl)
    return core.blocked(self)


threading = types.SimpleNamespace(Lock=Lock, RLock=RLock, Event=Event, Condition=Condition, Thread=Thread,
                                  TIMEOUT_MAX=1e9, current_thread=lambda: _sched().current())
queue = types.SimpleNamespace(Queue=Queue, Empty=Empty)
