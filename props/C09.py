"""C09 - execute() hands a complete, final record to every output callback exactly once.

E1: the real Test.execute (finalisation, callbacks in try/except, deregistration),
TestExecutor.finalize/close/wait, TestState._finalize/close, running_phase_context,
logs.initialize_record_handler/remove_record_handler with the executor thread made
synchronous (its body runs when execute() waits for it).
"""
import logging

import vlib.env  # noqa: F401
from vlib.cond import cond, reach
from vlib import stubs
from vlib import exe_harness as H

stubs.install_fmtshim(objects_opaque=True)
H.install_sync_threads()
H.quiet()

from vlib import treecheck as TC
from vlib import trees as T
from openhtf.core import test_descriptor as TD
from openhtf.core import test_executor as TE
from openhtf.core import test_record as TR
from openhtf.core import test_state as TS
from openhtf.util import logs as htf_logs
import props.C02 as C02

PROPERTY = 'C09'
LEVEL = 'other'
KINDS = C02.KINDS


# the executor thread body must run when execute() waits for it (not inside start(), which
# execute() calls while holding Test._lock)
def _xstart(self):
  self._verif_alive = True
  self._verif_ran = False


def _xjoin(self, timeout=None):
  if getattr(self, '_verif_ran', True):
    return
  self._verif_ran = True
  try:
    self.run()
  finally:
    self._verif_alive = False


TE.TestExecutor.start = _xstart
TE.TestExecutor.join = _xjoin
STUBS = [s for s in H.STUBS if not s.startswith('SyncExecutorThread')] + [
    'SyncExecutorThread: TestExecutor.start() only marks the thread started; its run() executes inline at the first join()/wait(), i.e. after execute() released Test._lock; is_alive() is false afterwards',
    'fmtshim']


def FUNCTIONS():
  return [TD.Test.execute, TE.TestExecutor.finalize, TE.TestExecutor.close, TE.TestExecutor.wait, TE.TestExecutor._thread_proc,
          TE.TestExecutor._execute_test_start, TE.TestExecutor._execute_test_teardown, TS.TestState._finalize, TS.TestState.close,
          TS.TestState.running_phase_context, htf_logs.initialize_record_handler, htf_logs.remove_record_handler]


BOUNDS = {'programs': 'trees 0 (flat), 1 (group + following phase), 2 (subtest) of family T; one phase deviates with any of 13 behaviour kinds',
          'callbacks': '3 recording callbacks, any subset raises; a callback may itself call execute() again (overlap while the first call is still in its callbacks)',
          'test_start': 'none / lambda returning a dut id / phase setting the dut id / phase that raises',
          'SIGINT': 'the real Test.handle_sig_int runs inside the first TestExecutor.wait() of execute(), before the executor did anything or just after it finished; any subset of callbacks raises',
          'histories': 'one or two consecutive execute() calls on the same Test; an overlapping execute() from inside a phase body or from inside an output callback'}
ASSUMPTIONS = ['single OS thread: the overlapping call is made re-entrantly from a phase body / callback of the running call']
OUTSIDE = ['SIGINT at moments other than before the executor started / just after it finished (the executor is synchronous here; abort moments inside the run are C04)', 'profiling', 'real thread timing']


class CallbackBoom(Exception):
  pass


class Obs:
  def __init__(self):
    self.calls = []          # (callback index, record id, snapshot)
    self.reentry = []        # results of overlapping execute() calls
    self.depth = 0


OBS = Obs()
CFG = {'raise': (False, False, False), 'reenter_cb': -1, 'reenter_phase': False}


def _snapshot(rec, test):
  st = test._executor.test_state if test._executor else None
  return {
      'outcome': rec.outcome, 'start': rec.start_time_millis, 'end': rec.end_time_millis, 'dut': rec.dut_id,
      'meta_name': rec.metadata.get('test_name'), 'has_config': 'config' in rec.metadata,
      'running_phase': st.running_phase_state if st is not None else 'no-state',
      'phases': [(p.name, p.outcome, p.result, p.options, p.start_time_millis, p.end_time_millis) for p in rec.phases],
  }


def _make_cb(i, test_ref):
  def cb(rec):
    OBS.calls.append((i, id(rec), _snapshot(rec, test_ref[0])))
    if CFG['reenter_cb'] == i and not OBS.reentry and not OBS.depth:
      OBS.depth += 1
      try:
        test_ref[0].execute()
        OBS.reentry.append('accepted')
      except TD.InvalidTestStateError:
        OBS.reentry.append('refused')
      finally:
        OBS.depth -= 1
    if CFG['raise'][i]:
      raise CallbackBoom('callback %d failed' % i)
  return cb


def _reenter_phase_factory(test_ref):
  def reenter(test):
    if CFG['reenter_phase'] and not OBS.reentry and not OBS.depth:
      OBS.depth += 1
      try:
        test_ref[0].execute()
        OBS.reentry.append('accepted')
      except TD.InvalidTestStateError:
        OBS.reentry.append('refused')
      finally:
        OBS.depth -= 1
  reenter.__name__ = 'reenter'
  return reenter


TESTS = {}


def _test(ti):
  for c in range(3):        # concrete index (a symbolic dict key would be hashed = realised)
    if ti == c:
      ti = c
      break
  if ti not in TESTS:
    ref = [None]
    nodes = [T.build(n) for n in T.ALL[ti]]
    t = H.make_test(H.PD.PhaseDescriptor.wrap_or_copy(_reenter_phase_factory(ref)), *nodes)
    t.configure(failure_exceptions=[H.ListedFailure])
    t.add_output_callbacks(_make_cb(0, ref), _make_cb(1, ref), _make_cb(2, ref))
    ref[0] = t
    TESTS[ti] = t
  return TESTS[ti]


def _ts_lambda():
  return 'dut-from-lambda'


def _ts_phase(test):
  test.test_record.dut_id = 'dut-from-phase'


def _ts_terminal(test):
  raise H.PhaseError('test_start failed')


_TS = (None, _ts_lambda, H.PD.PhaseDescriptor.wrap_or_copy(_ts_phase), H.PD.PhaseDescriptor.wrap_or_copy(_ts_terminal))
_TS[0] if False else None
_TS_LAMBDA = lambda: 'dut-from-lambda'      # noqa: E731  (execute() special-cases types.LambdaType)
for _ti in range(3):
  _test(_ti)               # built once at import, outside tracing


def _execute_once(test, ts, script_setup):
  OBS.calls = []
  OBS.reentry = []
  OBS.depth = 0
  script_setup()
  start = _TS_LAMBDA if ts == 1 else _TS[ts]
  ret = test.execute(test_start=start)
  return ret


def _contract_holds(test, ret, ts, expect_reentries):
  calls = OBS.calls
  # every callback exactly once, in registration order, with the identical record
  if [c[0] for c in calls] != [0, 1, 2]:
    return False
  if len(set(c[1] for c in calls)) != 1:
    return False
  for _, _, s in calls:
    if s['outcome'] is None or s['end'] is None or s['start'] is None or not (s['start'] <= s['end']):
      return False
    if s['dut'] is None:                       # dut_id set (default if the test never set one)
      return False
    if s['meta_name'] is None or not s['has_config']:
      return False
    if s['running_phase'] is not None:         # no phase still marked running
      return False
    for (name, outcome, result, options, st, en) in s['phases']:
      if outcome is None or result is None or options is None or en is None or not (st <= en <= s['end']):
        return False
  final = calls[0][2]
  if ts == 1 and final['dut'] != 'dut-from-lambda':
    return False
  if ts == 2 and final['dut'] != 'dut-from-phase':
    return False
  if ts in (0, 3) and final['dut'] != 'UNKNOWN_DUT':
    return False
  if ts == 3 and (final['outcome'] is not TR.Outcome.ERROR or any(n != 'reenter' and False for n in ())):
    return False
  if ret != (final['outcome'] is TR.Outcome.PASS):     # True iff PASS
    return False
  # afterwards: no executor, not registered for SIGINT, record handler removed
  if test._executor is not None or test.uid is not None:
    return False
  if any(t is test for t in TD.Test.TEST_INSTANCES.values()):
    return False
  lg = logging.getLogger(htf_logs.LOGGER_PREFIX)
  if any(isinstance(h, htf_logs.RecordHandler) for h in lg.handlers):
    return False
  # an overlapping execute() is refused and does not disturb the running one
  if OBS.reentry != ['refused'] * expect_reentries:
    return False
  return True


@cond(timeout=1200, split={'ti': range(3), 'ts': range(4)})
def c_execute_contract(ti: int, ts: int, i1: int, v1: int, r0: bool, r1: bool, r2: bool, twice: bool) -> bool:
  """
  pre: 0 <= ti <= 2 and 0 <= ts <= 3
  pre: 0 <= i1 <= 3 and 0 <= v1 <= 12
  post: _
  """
  H.reset_globals()
  test = _test(ti)

  def setup():
    H.SCRIPT.reset()
    H.SCRIPT.bad_index = 1
    for node in T.phases_of(T.ALL[ti]):
      k = int(node[1][1:])
      kind = KINDS[v1] if k == i1 else KINDS[0]
      H.SCRIPT.beh[node[1]] = [kind[0], 0]
      H.SCRIPT.meas[node[1]] = [TC._meas(kind[1])]
  CFG.update({'raise': (r0, r1, r2), 'reenter_cb': -1, 'reenter_phase': False})
  try:
    ret = _execute_once(test, ts, setup)
    reach()
    ok = _contract_holds(test, ret, ts, 0)
    if ok and twice:
      # the Test can be executed again
      ret2 = _execute_once(test, 0, setup)
      ok = _contract_holds(test, ret2, 0, 0)
    return ok
  finally:
    CFG.update({'raise': (False, False, False), 'reenter_cb': -1, 'reenter_phase': False})


def _wait_with_sigint(late):
  """TestExecutor.wait whose first call behaves as if SIGINT arrived while execute() was waiting: the real
  Test.handle_sig_int runs (it aborts every registered test and raises KeyboardInterrupt once).  late=False: the
  signal arrives before the executor did anything; late=True: just after the executor finished."""
  orig = TE.TestExecutor.wait
  state = {'n': 0}

  def wait(self):
    state['n'] += 1
    if state['n'] == 1:
      if late:
        orig(self)
      TD.Test.HANDLED_SIGINT_ONCE = False
      TD.Test.handle_sig_int(2, None)
      return None
    return orig(self)
  return orig, wait, state


@cond(timeout=900, split={'ti': range(3)})
def c_sigint_while_waiting(ti: int, late: bool, r0: bool, r1: bool, r2: bool) -> bool:
  """
  pre: 0 <= ti <= 2
  post: _
  """
  # SIGINT on the main thread while execute() waits for the executor: execute() still hands the complete, final
  # record to every callback exactly once (after the executor really finished), cleans up, and re-raises
  # KeyboardInterrupt.
  H.reset_globals()
  test = _test(ti)

  def setup():
    H.SCRIPT.reset()
    H.SCRIPT.bad_index = 1
    for node in T.phases_of(T.ALL[ti]):
      H.SCRIPT.beh[node[1]] = [KINDS[0][0], 0]
      H.SCRIPT.meas[node[1]] = [TC._meas(KINDS[0][1])]
  CFG.update({'raise': (r0, r1, r2), 'reenter_cb': -1, 'reenter_phase': False})
  orig, wait, state = _wait_with_sigint(late)
  TE.TestExecutor.wait = wait
  interrupted = False
  other = None
  try:
    try:
      _execute_once(test, 0, setup)
    except KeyboardInterrupt:
      interrupted = True
    except Exception as e:      # anything else escaping execute() is a failure of the contract
      other = e
  finally:
    TE.TestExecutor.wait = orig
    TD.Test.HANDLED_SIGINT_ONCE = False
    CFG.update({'raise': (False, False, False), 'reenter_cb': -1, 'reenter_phase': False})
  reach()
  if other is not None or not interrupted:
    return False
  calls = OBS.calls
  if [c[0] for c in calls] != [0, 1, 2] or len(set(c[1] for c in calls)) != 1:
    return False
  for _, _, s in calls:
    if s['outcome'] is None or s['end'] is None or s['start'] is None or s['dut'] is None:
      return False
    if s['running_phase'] is not None:
      return False
    for (name, outcome, result, options, st, en) in s['phases']:
      if outcome is None or result is None or en is None:
        return False
  if not late and calls[0][2]['outcome'] is not TR.Outcome.ABORTED:
    return False
  if test._executor is not None or test.uid is not None:
    return False
  if any(t is test for t in TD.Test.TEST_INSTANCES.values()):
    return False
  lg = logging.getLogger(htf_logs.LOGGER_PREFIX)
  return not any(isinstance(h, htf_logs.RecordHandler) for h in lg.handlers)


@cond(timeout=120, expect='refute')
def w_sigint_while_waiting(late: bool, r0: bool) -> bool:
  """
  post: _
  """
  ok = c_sigint_while_waiting(1, late, r0, False, False)
  # witness: early SIGINT, first callback raising, and the whole contract (KeyboardInterrupt, ABORTED record once to all) held
  return not (ok and not late and r0 and OBS.calls[2][2]['outcome'] is TR.Outcome.ABORTED)


@cond(timeout=600, split={'where': range(4)})
def c_overlapping_execute_refused(where: int, ti: int, r0: bool, r1: bool, r2: bool, v1: int) -> bool:
  """
  pre: 0 <= where <= 3
  pre: 0 <= ti <= 1
  pre: v1 in (0, 1, 4, 7)
  post: _
  """
  # where: 0 = from inside a phase body, 1..3 = from inside output callback 0..2
  H.reset_globals()
  test = _test(ti)

  def setup():
    H.SCRIPT.reset()
    for node in T.phases_of(T.ALL[ti]):
      kind = KINDS[v1] if node[1] == 'p1' else KINDS[0]
      H.SCRIPT.beh[node[1]] = [kind[0], 0]
      H.SCRIPT.meas[node[1]] = [TC._meas(kind[1])]
  CFG.update({'raise': (r0, r1, r2), 'reenter_cb': where - 1 if where else -1, 'reenter_phase': where == 0})
  try:
    ret = _execute_once(test, 0, setup)
    reach()
    return _contract_holds(test, ret, 0, 1)
  finally:
    CFG.update({'raise': (False, False, False), 'reenter_cb': -1, 'reenter_phase': False})


@cond(timeout=120, expect='refute')
def w_callbacks_after_raising_one(r0: bool, r1: bool, r2: bool) -> bool:
  """
  post: _
  """
  H.reset_globals()
  test = _test(0)

  def setup():
    H.SCRIPT.reset()
    for node in T.phases_of(T.ALL[0]):
      H.SCRIPT.meas[node[1]] = [TC._meas(0)]
  CFG.update({'raise': (r0, r1, r2), 'reenter_cb': -1, 'reenter_phase': False})
  try:
    ret = _execute_once(test, 0, setup)
    return not (r0 and r1 and not r2 and ret is True and [c[0] for c in OBS.calls] == [0, 1, 2])
  finally:
    CFG.update({'raise': (False, False, False), 'reenter_cb': -1, 'reenter_phase': False})
