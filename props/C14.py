"""C14 - ADB streams: per-stream in-order exactly-once delivery, acks, flow control.

E3: AdbStreamTransport / AdbConnection / AdbStream read-write paths are sequentialised from
their live source and run on cooperative Lock / RLock / Condition / Queue with virtual
time; host reader/writer threads are coroutines; the device is a reactive message-level
fake (it OKAYs host WRTEs) whose own WRTE/CLSE packets arrive in a symbolic order; the
thread schedule (preemptions, picks) is symbolic.
"""
import logging
import types

import vlib.env  # noqa: F401
from vlib.cond import cond, reach, pin, untraced
from vlib import usbstub
from vlib.seqz import core as Z
from vlib.seqz import prims

M = usbstub.load_usb('adb_message')
X = usbstub.load_usb('usb_exceptions')
P = usbstub.load_usb('adb_protocol')
from openhtf.util import timeouts as TO

logging.disable(logging.CRITICAL)
TO.time = prims.time          # PolledTimeout on the virtual clock

PROPERTY = 'C14'
LEVEL = 'model_checking'
EXPLANATION = ('bounded model checking of the sequentialised real stream multiplexer on cooperative primitives and a virtual '
               'clock: device packet order, one or two preemptions and thread picks are symbolic; CrossHair/z3 exhausts the paths. The schedule/duration variables are pinned by bisection (O(log n) solver decisions per path) and the pinned schedule then runs natively on the sequentialised code: z3 partitions and exhausts the domain under the preconditions, it does not reason symbolically inside a path.')

_G = {'threading': prims.threading, 'queue': prims.queue, 'time': prims.time}
SeqTransport, _O1 = Z.encode_subclass(P.AdbStreamTransport,
                                      ['_read_messages_until_true', '_handle_message', 'enqueue_message', 'write', 'read',
                                       '_send_command', 'close'], _G)
SeqConnection, _O2 = Z.encode_subclass(P.AdbConnection,
                                       ['read_for_stream', '_handle_message_for_stream', 'close_stream_transport'], _G)
SeqStream, _O3 = Z.encode_subclass(P.AdbStream, ['write', 'read'], _G)


def FUNCTIONS():
  return list(_O1) + list(_O2) + list(_O3)


BOUNDS = {'streams': '2 open streams (local ids 1, 2)',
          'device': 'scenario A: stream 1 sends WRTE "a", WRTE "b"; stream 2 sends WRTE "x" then CLSE; all six merges; the device OKAYs every host WRTE at once (reactive fake)',
          'host threads': 'scenario A: one reader per stream; scenario B: a writer (5 bytes, maxdata 2 -> 3 chunks) and a reader on stream 1 while the device sends two bytes z, y, each after any of the host\'s 0..3 WRTEs (z not later than y), y before or after the OKAY of that WRTE; either thread spawned first',
          'schedule': 'quick: one preemption at any step of the run (0..300 / 0..400) to either thread, a symbolic pick when a thread blocks, either thread first; a preemption whose target is in a timed wait of <= 70 ms lets it expire (time skip). thorough adds two preemptions: any pair in the one-chunk scenario, second within 25 (two readers) / 30 (full writer+reader with z and y both after the 1st or both after the 3rd WRTE) steps of the first; read timeouts 60 ms / write timeout 1 s of virtual time, 10 ms queue polls'}
STUBS = ['cooperative Lock/RLock/Condition/Queue/time (vlib/seqz/prims.py)', 'message-level fake adapter (framing is C13): read_message blocks until the device has a packet or the timeout expires',
         'streams are constructed directly in the OPEN state (open/close handshake is C15)']
ASSUMPTIONS = ['preemption only between statements of the encoded functions']
OUTSIDE = ['3 or more streams, longer payload scripts, the "then randomly" part of the quantifier', 'filesync/shell services', 'real queue timing', 'real-thread replay']


class _UsbErr:
  value = -7


class Device:
  """Reactive message-level fake: host packets are recorded; WRTE is answered by OKAY."""

  def __init__(self, packets):
    self.inbox = list(packets)      # packets the device will send, in order
    self.sent = []                  # packets received from the host

  def write_message(self, message, timeout):
    self.sent.append((message.command, message.arg0, message.arg1, message.data))
    if message.command == 'WRTE':
      self.inbox.append(('OKAY', message.arg1, message.arg0, ''))

  def read_message(self, timeout):
    if self.inbox:
      c, a0, a1, d = self.inbox.pop(0)
      return M.AdbMessage(c, a0, a1, d)
    if timeout.has_expired():
      raise X.UsbReadFailedError(_UsbErr(), 'read timed out')
    return Z.blocked(self, prims._sched().now + max(timeout.remaining or 0, 0.001))

  def close(self):
    pass


def _mk(packets, maxdata=4096):
  dev = Device(packets)
  conn = SeqConnection(dev, maxdata, 'device:S:b')
  conn._reader_lock = prims.Lock()
  conn._open_lock = prims.Lock()
  conn._stream_transport_map_lock = prims.RLock()
  streams = {}
  for lid, rid in ((1, 11), (2, 12)):
    st = SeqTransport(conn, lid, prims.Queue())
    st._read_buffer_lock = prims.Lock()
    st._write_lock = prims.Lock()
    st._message_received = prims.Condition()
    st._reader_lock = prims.Lock()
    st.remote_id = rid
    st.closed_state = st.ClosedState.OPEN
    st._expecting_okay = False
    conn._stream_transport_map[lid] = st
    streams[lid] = SeqStream('svc', st)
  return dev, conn, streams


def _reader(stream, out, errs, n_reads, tmo=60):
  for _ in range(n_reads):
    try:
      d = yield from Z.co(stream.read, 0, tmo)
      out.append(d)
    except X.AdbStreamClosedError:
      out.append('<closed>')
      return
    except (X.AdbTimeoutError, X.UsbReadFailedError):
      out.append('<timeout>')         # a timed-out read loses nothing: the next read continues
    except X.AdbProtocolError as e:
      errs.append('protocol')
      return


def _writer(stream, data, errs):
  try:
    yield from Z.co(stream.write, data, 1000)
  except (X.AdbTimeoutError, X.UsbReadFailedError):
    errs.append('write-timeout')
  except X.AdbProtocolError:
    errs.append('write-protocol')


_MERGES = (  # interleavings of [a, b] (stream 1) and [x, C] (stream 2)
    'abxC', 'axbC', 'axCb', 'xabC', 'xaCb', 'xCab')
_PK = {'a': ('WRTE', 11, 1, 'a'), 'b': ('WRTE', 11, 1, 'b'), 'x': ('WRTE', 12, 2, 'x'), 'C': ('CLSE', 12, 2, '')}


def _two_readers(mi, preempt, pick):
  dev, conn, streams = _mk([_PK[c] for c in _MERGES[mi]])
  out1, out2, errs = [], [], []
  s = Z.Sched(preempt=preempt, pick=pick, max_steps=3000, time_skip=0.07)
  s.spawn('r1', _reader(streams[1], out1, errs, 4))
  s.spawn('r2', _reader(streams[2], out2, errs, 4))
  try:
    s.run()
  except Z.Deadlock:
    return False                      # no deadlock
  reach()
  for c in s.cos:
    if c.alive or c.exc is not None:
      return False
  if errs:
    return False
  # each reader obtains exactly the bytes the device wrote to its stream, in order
  d1 = ''.join(x for x in out1 if not x.startswith('<'))
  d2 = ''.join(x for x in out2 if not x.startswith('<'))
  if d1 != 'ab' or d2 != 'x':
    return False
  if '<closed>' not in out2:
    return False                      # after the device's CLSE, reads drain and then report closed
  # every device WRTE acknowledged by exactly one OKAY carrying that stream's ids
  okays = [p for p in dev.sent if p[0] == 'OKAY']
  if sorted(okays) != sorted([('OKAY', 1, 11, ''), ('OKAY', 1, 11, ''), ('OKAY', 2, 12, '')]):
    return False
  # the device's CLSE is answered with exactly one CLSE
  if [p for p in dev.sent if p[0] == 'CLSE'] != [('CLSE', 2, 12, '')]:
    return False
  return s.now <= 1.0                 # every blocked call returned by its timeout


@cond(timeout=1500, split={'mi': range(6)})
def c_two_readers(mi: int, p0: int, t0: int, k0: int) -> bool:
  """
  pre: 0 <= mi <= 5
  pre: 0 <= p0 <= 300 and 0 <= t0 <= 1
  pre: 0 <= k0 <= 1
  post: _
  """
  return untraced(_two_readers, pin(mi, 0, 5), [(pin(p0, 0, 300), pin(t0, 0, 1))], [pin(k0, 0, 1)])


@cond(tiers=('thorough',), timeout=6000, split={'mi': range(6), 't0': range(2), 't1': range(2)})
def c_two_readers_2p(mi: int, p0: int, t0: int, p1: int, t1: int, k0: int) -> bool:
  """
  pre: 0 <= mi <= 5
  pre: 0 <= p0 <= 300 and p0 < p1 <= 300 and p1 <= p0 + 25 and 0 <= t0 <= 1 and 0 <= t1 <= 1
  pre: k0 == 0
  post: _
  """
  return untraced(_two_readers, pin(mi, 0, 5), [(pin(p0, 0, 300), pin(t0, 0, 1)), (pin(p1, 0, 300), pin(t1, 0, 1))], [pin(k0, 0, 1)])


def _scenario_b(where, where2, preempt, pick, yb=0, data='hello', order=0):
  """Stream 1: a writer (5 bytes, maxdata 2) and a reader; the device sends WRTE 'z' after the host's
  where-th WRTE and WRTE 'y' after the where2-th (0 = before anything)."""
  dev, conn, streams = _mk([], maxdata=2)
  orig = dev.write_message
  count = [0]

  def wm(message, timeout):
    if message.command == 'WRTE' and yb and count[0] + 1 == where2:
      if count[0] + 1 == where:
        dev.inbox.append(('WRTE', 11, 1, 'z'))
      dev.inbox.append(('WRTE', 11, 1, 'y'))   # the device wrote this just before acknowledging
    orig(message, timeout)
    if message.command == 'WRTE':
      count[0] += 1
      if count[0] == where and not (yb and where == where2):
        dev.inbox.append(('WRTE', 11, 1, 'z'))
      if count[0] == where2 and not yb:
        dev.inbox.append(('WRTE', 11, 1, 'y'))
  dev.write_message = wm
  if where == 0:
    dev.inbox.append(('WRTE', 11, 1, 'z'))
  if where2 == 0:
    dev.inbox.append(('WRTE', 11, 1, 'y'))
  out, errs = [], []
  s = Z.Sched(preempt=preempt, pick=pick, max_steps=4000, time_skip=0.07)
  rd = _reader(streams[1], out, errs, 4 if len(data) > 2 else 3, 60 if len(data) > 2 else 20)
  wr = _writer(streams[1], data, errs)
  for nm, g in ((('reader', rd), ('writer', wr)) if order == 0 else (('writer', wr), ('reader', rd))):
    s.spawn(nm, g)                     # order: which thread gets to run first
  return dev, s, out, errs


_W2 = tuple((a, b) for a in range(4) for b in range(a, 4))


def _writer_and_reader(wi, yb, preempt, pick, data='hello', order=0):
  dev, s, out, errs = _scenario_b(_W2[wi][0], _W2[wi][1], preempt, pick, yb, data, order)
  try:
    s.run()
  except Z.Deadlock:
    return False
  reach()
  for c in s.cos:
    if c.alive or c.exc is not None:
      return False
  if errs:
    return False                      # no protocol error, and the write did not wait out its timeout (lost wake-up)
  # the host write is split into chunks no larger than maxdata, in order; one outstanding WRTE at a time:
  # the device queues its OKAY when it receives a WRTE, so the next chunk may only follow once that OKAY was consumed
  if [p[3] for p in dev.sent if p[0] == 'WRTE'] != [data[i:i + 2] for i in range(0, len(data), 2)]:
    return False
  if [p for p in dev.inbox if p[0] == 'OKAY']:
    return False
  if ''.join(x for x in out if not x.startswith('<')) != 'zy':
    return False                      # the reader got the device's bytes exactly once, in order
  return [p for p in dev.sent if p[0] == 'OKAY'] == [('OKAY', 1, 11, ''), ('OKAY', 1, 11, '')]


@cond(timeout=1500, split={'wi': range(len(_W2)), 'yb': range(2)})
def c_writer_and_reader(wi: int, yb: int, order: int, p0: int, t0: int, k0: int) -> bool:
  """
  pre: 0 <= wi < len(_W2) and 0 <= yb <= 1 and 0 <= order <= 1
  pre: 0 <= p0 <= 400 and 0 <= t0 <= 1
  pre: 0 <= k0 <= 1
  post: _
  """
  return untraced(_writer_and_reader, pin(wi, 0, len(_W2) - 1), pin(yb, 0, 1), [(pin(p0, 0, 400), pin(t0, 0, 1))], [pin(k0, 0, 1)], 'hello', pin(order, 0, 1))


_W2S = (0, 1, 4)     # short scenario (one chunk): (z, y) positions (0,0), (0,1), (1,1)


@cond(tiers=('thorough',), timeout=3000, split={'ws': range(3), 'yb': range(2), 't0': range(2), 't1': range(2)})
def c_writer_and_reader_2p(ws: int, yb: int, p0: int, t0: int, p1: int, t1: int) -> bool:
  """
  pre: 0 <= ws <= 2 and 0 <= yb <= 1
  pre: 0 <= p0 <= 200 and p0 < p1 <= 200 and 0 <= t0 <= 1 and 0 <= t1 <= 1
  post: _
  """
  return untraced(_writer_and_reader, _W2S[pin(ws, 0, 2)], pin(yb, 0, 1), [(pin(p0, 0, 200), pin(t0, 0, 1)), (pin(p1, 0, 200), pin(t1, 0, 1))], [], 'he')


@cond(tiers=('thorough',), timeout=12000, split={'wi': (4, 9), 'yb': range(2), 't0': range(2), 't1': range(2)})
def c_writer_and_reader_full_2p(wi: int, yb: int, p0: int, t0: int, p1: int, t1: int) -> bool:
  """
  pre: 0 <= wi < len(_W2) and 0 <= yb <= 1
  pre: 0 <= p0 <= 400 and p0 < p1 <= 400 and p1 <= p0 + 30 and 0 <= t0 <= 1 and 0 <= t1 <= 1
  post: _
  """
  return untraced(_writer_and_reader, pin(wi, 0, len(_W2) - 1), pin(yb, 0, 1), [(pin(p0, 0, 400), pin(t0, 0, 1)), (pin(p1, 0, 400), pin(t1, 0, 1))], [])


def _witness(p0, t0):
  dev, conn, streams = _mk([_PK[c] for c in 'xabC'])
  out1, out2, errs = [], [], []
  s = Z.Sched(preempt=[(p0, t0)], max_steps=3000, time_skip=0.07)
  s.spawn('r1', _reader(streams[1], out1, errs, 4))
  s.spawn('r2', _reader(streams[2], out2, errs, 4))
  s.run()
  # witness: reader 1 was the connection's reading thread when stream 2's packet arrived and handed it over
  return not (''.join(x for x in out1 if not x.startswith('<')) == 'ab' and out2[:1] == ['x'] and ('r2', 'blocked') in s.trace)


@cond(timeout=300, expect='refute')
def w_reader_gets_other_streams_packets(p0: int, t0: int) -> bool:
  """
  pre: 0 <= p0 <= 90 and 0 <= t0 <= 1
  post: _
  """
  return untraced(_witness, pin(p0, 0, 90), pin(t0, 0, 1))
