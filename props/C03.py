"""C03 - PhaseGroup teardown always runs once the group was entered.

Programs part (E1): the real executor (threads synchronous) runs trees that
contain groups, with a symbolic script; a monitor on the call log checks the
teardown guarantee directly from the statement (independently of the spec
interpreter used by C02).  The abort part (schedules) is decided by the
sequentialised conditions when present (see evidence), otherwise outside.
"""
import vlib.env  # noqa: F401
from vlib.cond import cond, reach
from vlib import stubs
from vlib import exe_harness as H

stubs.install_fmtshim(objects_opaque=True)
H.install_sync_threads()
H.quiet()
H.skip_base_type_caches()

from vlib import treecheck as TC
from vlib import trees as T
from openhtf.core import test_executor as TE
from openhtf.core import test_record as TR
import props.C02 as C02

PROPERTY = 'C03'
ALSO = ['props.C03a']     # the abort/schedule part (E3, shares the sequentialised executor with C04)
LEVEL = 'other'
STUBS = C02.STUBS
KINDS = C02.KINDS

# trees with groups (index into T.ALL) and, per tree, the groups as
# (setup phases, main phases (all nested), teardown phases (direct children), enclosing subtest phases before the group)
GROUP_TREES = (1, 3, 4, 8, 9, 10, 11, 13)
NQ = len(T.QUICK)


def FUNCTIONS():
  X = TE.TestExecutor
  return [X._execute_phase_group, X._execute_teardown_sequence, X._execute_abortable_sequence, X._execute_sequence,
          X._execute_subtest, X._execute_phase_branch, X._execute_phase, TE._more_critical]


BOUNDS = {'trees': 'the trees of family T that contain groups: indices %r (top level, inside a subtest, nested in main, nested in teardown, behind a branch)' % (GROUP_TREES,),
          'script': 'any two phases deviate from nominal with any of 13 kinds each; main endings covered: exception, STOP, timeout, failed subtest, failure inside a nested group, terminal earlier teardown node',
          'abort': 'NOT part of this E1 condition (see the E3 condition / DESIGN.md)'}
ASSUMPTIONS = C02.ASSUMPTIONS
OUTSIDE = ['plug tearDown ordering (C08)']


def _groups(tree):
  """Flattens the groups of a DSL tree."""
  out = []

  def names(nodes):
    return [n[1] for n in T.phases_of(nodes)]

  def walk(n, in_subtest, following, abortable):
    k = n[0]
    if k == 'group':
      out.append({'setup': names(n[1]), 'main': names(n[2]), 'teardown': names(n[3]), 'in_subtest': in_subtest,
                  'td_direct': [x[1] for x in n[3] if x[0] == 'phase'],
                  'td_branches': [(x[2], x[3], names(x[4])) for x in n[3] if x[0] == 'branch'],
                  'after': names(following) if abortable else []})
      for part, ab in ((n[1], abortable), (n[2], abortable), (n[3], False)):
        for i, x in enumerate(part):
          walk(x, in_subtest, part[i + 1:], ab)
    elif k == 'seq':
      for i, x in enumerate(n[1]):
        walk(x, in_subtest, list(n[1][i + 1:]) + list(following), abortable)
    elif k == 'subtest':
      for i, x in enumerate(n[2]):
        walk(x, True, n[2][i + 1:], abortable)
    elif k == 'branch':
      for i, x in enumerate(n[4]):
        walk(x, in_subtest, list(n[4][i + 1:]) + list(following), abortable)
  for i, n in enumerate(tree):
    walk(n, False, tree[i + 1:], True)
  return out


def _cond_holds(ckind, results, have):
  has = [x in have for x in results]
  if ckind == 'ALL':
    return all(has)
  if ckind == 'ANY':
    return any(has)
  if ckind == 'NOT_ANY':
    return not any(has)
  return not all(has)


def _monitor(ti, r, soff=False):
  """The teardown guarantee, evaluated on the observed call log and records."""
  tree = T.ALL[ti]
  runs = [e[1] for e in r.log if e[0] == 'run']
  recs = {}
  for p in r.rec.phases:
    recs.setdefault(p.name, []).append(p)
  have = set(d.result.name for d in r.rec.diagnoses)
  for g in _groups(tree):
    events = [n for n in g['setup'] + g['main'] + g['teardown'] if n in recs]
    if not events:
      continue                                   # the group was never reached
    # time at which the group was entered = start of its first recorded phase
    t_enter = min(p.start_time_millis for n in events for p in recs[n])
    if g['in_subtest']:
      # "(and the enclosing subtest had not already failed)": failures before entry exempt the group
      failed_before = any(p.result is not None and p.result.is_fail_subtest and p.start_time_millis < t_enter
                          for p in r.rec.phases) or \
          any(getattr(c.result.phase_result, 'name', None) == 'FAIL_SUBTEST' and c.evaluated_millis < t_enter
              for c in r.rec.checkpoints)
      setup_failed_subtest = any(p.result is not None and p.result.is_fail_subtest for n in g['setup'] for p in recs.get(n, []))
      if failed_before or setup_failed_subtest:
        continue
    setup_ok = True
    for n in g['setup']:
      rs = recs.get(n, [])
      if not rs or runs.count(n) == 0:
        setup_ok = False
      for p in rs:
        if p.outcome is TR.PhaseOutcome.ERROR or (soff and p.outcome is TR.PhaseOutcome.FAIL):
          setup_ok = False                       # terminal result in setup (a FAIL stops the test under stop_on_first_failure)
    if setup_ok:
      expected = list(g['td_direct'])
      for ckind, results, phases in g['td_branches']:
        if _cond_holds(ckind, results, have):
          expected += phases                     # teardown branches whose condition holds run as well
      for n in expected:
        c = runs.count(n)
        if c < 1 or c != len(recs.get(n, [])):
          return False                           # every teardown node is executed, no matter how main ended
        if c > 1 and not all(p.result is not None and p.result.is_repeat for p in recs[n][:-1]):
          return False                           # ... exactly once
        first_td = runs.index(n)
        for m in g['main'] + g['setup']:
          if m in runs and first_td < len(runs) - 1 - runs[::-1].index(m):
            return False                         # ... after the group's main nodes stopped
      # a terminal result inside teardown still propagates outward: nothing following the group runs
      td_terminal = any(p.outcome is TR.PhaseOutcome.ERROR or (soff and p.outcome is TR.PhaseOutcome.FAIL)
                        for n in g['teardown'] for p in recs.get(n, []))
      if td_terminal and any(n in runs for n in g['after']):
        return False
    else:
      terminal_setup = any(p.outcome is TR.PhaseOutcome.ERROR or (soff and p.outcome is TR.PhaseOutcome.FAIL)
                           for n in g['setup'] for p in recs.get(n, []))
      if terminal_setup and any(n in runs for n in g['main'] + g['teardown']):
        return False                             # setup did not complete: neither main nor teardown runs
  return True


@cond(timeout=1500, split={'ti': tuple(t for t in GROUP_TREES if t < NQ), 'i1': range(5), 'v1': range(13)},
      timeout_thorough=5400)
def c_group_teardown(ti: int, i1: int, v1: int, i2: int, v2: int, rb: int, g0: int, g1: int, soff: bool) -> bool:
  """
  pre: ti in GROUP_TREES
  pre: 0 <= i1 <= 4 and i1 <= i2 <= 4
  pre: 0 <= v1 <= 12 and 0 <= v2 <= 12
  pre: 0 <= rb <= 1
  pre: 0 <= g0 <= 4 and 0 <= g1 <= 4
  post: _
  """
  return C02._run2(ti, i1, v1, i2, v2, rb, g0, g1, soff, False, lambda r, au: _monitor(ti, r, soff))


@cond(timeout=300, expect='refute')
def w_group_teardown_after_exception(v1: int, v2: int) -> bool:
  """
  pre: 0 <= v1 <= 12 and 0 <= v2 <= 12
  post: _
  """
  # witness on tree 1 (group [p0],[p1],[p2]; then p3): main raises, teardown p2 still runs once, p3 does not
  r = TC.run_tree(1, [0, KINDS[v1][0], KINDS[v2][0], 0, 0], 0, [0] * 5, [0] * 5, False, False)
  runs = [e[1] for e in r.log if e[0] == 'run']
  return not (KINDS[v1][0] == 8 and runs == ['p0', 'p1', 'p2'] and _monitor(1, r))
