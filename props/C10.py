"""C10 - serialized (base-type / JSON) view always equals the in-memory record.

E1 over the real incremental caches (Measurement._cached, MeasuredValue._cached_value,
DimensionedMeasuredValue._cached_basetype_values, PhaseState._cached, TestRecord._cached_*)
against a from-scratch rendering (deep copy with every cache cleared, then rendered), for
symbolic operation histories inside a phase and for whole records produced by trees of
family T; plus a lemma on data.convert_to_base_types (strict-JSON-safe output).
"""
import copy
import enum
import math

import vlib.env  # noqa: F401
from vlib.cond import cond, reach
from vlib import stubs
from vlib import exe_harness as H

stubs.install_fmtshim(objects_opaque=True)
H.install_sync_threads()
H.quiet()

import attr
from openhtf.core import measurements as MS
from openhtf.core import phase_descriptor as PD
from openhtf.core import phase_executor as PE
from openhtf.core import test_record as TR
from openhtf.core import test_state as TS
from openhtf.output.callbacks import json_factory as JF
from openhtf.util import data
from openhtf.util import validators as V
from vlib import treecheck as TC
from vlib import trees as T
import props.C06 as C06

PROPERTY = 'C10'
LEVEL = 'other'
KINDS = TC.KINDS
STUBS = H.STUBS + ['fake TestState for the in-phase conditions (as in C06)', 'fmtshim']


def FUNCTIONS():
  return [MS.Measurement.as_base_types, MS.Measurement.validate, MS.MeasuredValue.set, MS.MeasuredValue.basetype_value,
          MS.DimensionedMeasuredValue.__setitem__, MS.DimensionedMeasuredValue.basetype_value, TS.PhaseState.as_base_types,
          TS.PhaseState.attach, TS.PhaseState._notify, TR.TestRecord.as_base_types, TR.TestRecord.add_phase_record,
          TR.TestRecord.add_subtest_record, TR.TestRecord.add_branch_record, TR.TestRecord.add_checkpoint_record,
          TR.TestRecord.add_diagnosis, TR.PhaseRecord.as_base_types, data.convert_to_base_types,
          JF.convert_test_record_to_json]


BOUNDS = {'in-phase histories': '<= 3 operations from {set scalar, set dimensioned (coordinate in {0,1}), attach, read the live view}; values: symbolic int or IEEE float (incl. NaN, +-inf); transforms none / x*2',
          'records': 'trees 1, 5, 7, 8, 9, 12 of family T (groups, branches, checkpoints, subtests, diagnoses) with one deviating phase (13 kinds) and a diagnoser code',
          'convert_to_base_types lemma': 'values built from None, bool, int, float (all IEEE values), short str, an Enum, and list/tuple/str-keyed dict of these up to depth 2 (shape index symbolic)'}
ASSUMPTIONS = ['the standard json module encodes a tree of JSON-representable leaves strictly and decodes it to the same structure (trusted; exercised concretely on the witnesses)',
               'data.convert_to_base_types is the renderer of record for leaves (its output shape is checked by the lemma)']
OUTSIDE = ['json / base64 C code; attachment temp files', 'log record rendering (C19)', 'pandas']


def _clear_caches(ms):
  for m in ms.values():
    m._cached = None
    mv = m._measured_value
    if isinstance(mv, MS.DimensionedMeasuredValue):
      mv._cached_basetype_values = None
    elif mv.is_value_set:
      mv._cached_value = data.convert_to_base_types(mv.stored_value)
    m._notification_cb = None
    if isinstance(mv, MS.DimensionedMeasuredValue):
      mv.notify_value_set = None


def _fresh_measurements(ms):
  """From-scratch rendering of measurements: deep copy, every cache dropped, rendered anew."""
  cp = copy.deepcopy(dict((k, _strip(m)) for k, m in ms.items()))
  _clear_caches(cp)
  return dict((k, m.as_base_types()) for k, m in cp.items())


def _strip(m):
  return m


def _eq(a, b):
  """Structural equality that treats NaN as equal to NaN only if both are floats."""
  if isinstance(a, float) and isinstance(b, float):
    return (a != a and b != b) or a == b
  if type(a) != type(b) and not (isinstance(a, (int, float)) and isinstance(b, (int, float)) and not isinstance(a, bool) and not isinstance(b, bool)):
    if not (isinstance(a, (list, tuple)) and isinstance(b, (list, tuple))):
      return False
  if isinstance(a, dict):
    if set(a.keys()) != set(b.keys()):
      return False
    return all(_eq(a[k], b[k]) for k in a)
  if isinstance(a, (list, tuple)):
    return len(a) == len(b) and all(_eq(x, y) for x, y in zip(a, b))
  return a == b


def _live_ok(ps):
  live = ps.as_base_types()
  fresh_m = _fresh_measurements(ps.measurements)
  if not _eq(live['measurements'], fresh_m):
    return False
  atts = dict((k, v._asdict()) for k, v in ps.phase_record.attachments.items())
  if not _eq(live['attachments'], atts):
    return False
  return live['name'] == ps.name and live['subtest_name'] == ps.phase_record.subtest_name


def _phase_history(tf, ops, use_float):
  phase, ps, ts = C06._mk(0, 2, 8, 10, tf, 0, 0, 0, 0, False, False, 1, 0)
  coll = MS.Collection(ps.measurements)
  ok = True
  nat = 0
  for kind, c, vi, vf in ops:
    val = vf if use_float else vi
    if kind == 0:
      coll['m0'] = val
    elif kind == 1:
      coll['md'][c] = val
    elif kind == 2:
      nat += 1
      ps.attach('att%d' % nat, b'data%d' % nat, mimetype='text/plain')
    else:
      ok = ok and _live_ok(ps)          # read of the live view in the middle of the phase
  ok = ok and _live_ok(ps)
  ps.result = PE.PhaseExecutionOutcome(PD.PhaseResult.CONTINUE)
  ps.finalize()
  reach()
  # the finished phase record renders like a from-scratch rendering of its measurements
  rendered = ps.phase_record.as_base_types()
  return ok and _eq(rendered['measurements'], _fresh_measurements(ps.phase_record.measurements)) and \
      rendered['outcome'] == ps.phase_record.outcome.name


@cond(timeout=900, split={'tf': range(2), 'n': range(1, 4), 'k0': range(4), 'k1': range(4)})
def c_phase_view_int(tf: int, n: int, k0: int, c0: int, v0: int, k1: int, c1: int, v1: int, k2: int, c2: int, v2: int) -> bool:
  """
  pre: 0 <= tf <= 1 and 1 <= n <= 3
  pre: 0 <= k0 <= 3 and 0 <= k1 <= 3 and 0 <= k2 <= 3
  pre: 0 <= c0 <= 1 and 0 <= c1 <= 1 and 0 <= c2 <= 1
  post: _
  """
  return _phase_history(tf, [(k0, c0, v0, 0.0), (k1, c1, v1, 0.0), (k2, c2, v2, 0.0)][:n], False)


@cond(timeout=900, split={'n': range(1, 3), 'k0': range(2), 'k1': range(4)})
def c_phase_view_float(n: int, k0: int, c0: int, f0: float, k1: int, c1: int, f1: float) -> bool:
  """
  pre: 1 <= n <= 2
  pre: 0 <= k0 <= 1 and 0 <= k1 <= 3
  pre: 0 <= c0 <= 1 and 0 <= c1 <= 1
  post: _
  """
  return _phase_history(0, [(k0, c0, 0, f0), (k1, c1, 0, f1)][:n], True)


# ---------------------------------------------------------------- whole records --

_REC_TREES = (1, 5, 7, 8, 9, 12)
_LISTS = ('phases', 'subtests', 'branches', 'checkpoints', 'diagnosers', 'diagnoses', 'log_records')


def _fresh_phase(p):
  cp = copy.copy(p)
  cp.measurements = copy.deepcopy(p.measurements) if p.measurements is not None else None
  if cp.measurements:
    _clear_caches(cp.measurements)
  return cp.as_base_types()


@cond(timeout=1200, split={'ti': _REC_TREES, 'i1': range(5)})
def c_record_view(ti: int, i1: int, v1: int, g0: int, soff: bool) -> bool:
  """
  pre: ti in _REC_TREES
  pre: 0 <= i1 <= 4 and 0 <= v1 <= 12 and 0 <= g0 <= 4
  post: _
  """
  bs = [(KINDS[v1][0] if k == i1 else 0) for k in range(5)]
  mks = [(KINDS[v1][1] if k == i1 else 0) for k in range(5)]
  r = TC.run_tree(ti, bs, 0, mks, [g0, 0, 0, 0, 0], soff, False)
  rec = r.rec
  view = rec.as_base_types()
  for key in _LISTS:
    if key not in view:               # every record list of the TestRecord is represented
      return False
  if len(view['phases']) != len(rec.phases):
    return False
  for cached, p in zip(view['phases'], rec.phases):
    if not _eq(cached, _fresh_phase(p)):
      return False
  for key, items in (('subtests', rec.subtests), ('branches', rec.branches), ('checkpoints', rec.checkpoints),
                     ('diagnoses', rec.diagnoses)):
    if len(view[key]) != len(items):
      return False
    for cached, it in zip(view[key], items):
      if not _eq(cached, data.convert_to_base_types(it)):
        return False
  return view['outcome'] == rec.outcome.name and view['dut_id'] == rec.dut_id


# ------------------------------------------------- convert_to_base_types lemma --

class Color(enum.Enum):
  RED = 1


def _json_safe(x, depth=0):
  if x is None or isinstance(x, (bool, str)):
    return True
  if isinstance(x, int):
    return True
  if isinstance(x, float):
    return not (x != x or x == float('inf') or x == float('-inf'))      # no NaN / Infinity tokens
  if isinstance(x, (list, tuple)):
    return all(_json_safe(y, depth + 1) for y in x)
  if isinstance(x, dict):
    return all(isinstance(k, str) and _json_safe(v, depth + 1) for k, v in x.items())
  return False


def _value(shape, i, f, s, b):
  leaf = (None, b, i, f, s, Color.RED)
  if shape < 6:
    return leaf[shape]
  if shape == 6:
    return [i, f]
  if shape == 7:
    return (f, s)
  if shape == 8:
    return {'k': f, 'j': [i, None]}
  if shape == 9:
    return [[f], (i, s)]
  return {'a': {'b': f}, 'c': (b, Color.RED)}


@cond(timeout=600, split={'shape': range(11)})
def c_convert_json_safe(shape: int, i: int, f: float, s: str, b: bool) -> bool:
  """
  pre: 0 <= shape <= 10
  pre: len(s) <= 2
  post: _
  """
  out = data.convert_to_base_types(_value(shape, i, f, s, b), json_safe=True)
  reach()
  return _json_safe(out)


@cond(timeout=120, expect='refute')
def w_convert_nan(f: float) -> bool:
  """
  post: _
  """
  out = data.convert_to_base_types([f], json_safe=True)
  return not (f != f and out == ['nan'])
