"""C19 - log capture: every run log recorded once, in order, in its own run only.

E2: attribution decided on the live RECORD_LOGGER_RE translated to a z3 regex (string
theory): a record named openhtf.test_record.<u>[.<suffix>] passes TestUidFilter(v) iff
u == v, for all dot-free uids and suffixes up to the length bound; models are replayed
through the real filter.
E1: real initialize_record_handler / remove_record_handler / RecordHandler.emit /
HtfTestLogger.getChild / get_record_logger_for / TestRecord.add_log_record with the real
logging dispatch, over symbolic histories of start/stop/log operations of two runs; and
the MAC redaction over symbolic choices of octets, case, separators and context.
"""
import logging
import os

import vlib.env  # noqa: F401
from vlib.cond import cond, reach
from vlib import stubs, htfstub
from vlib import smt as _smt

import z3

from openhtf.core import test_record as TR
from openhtf.util import logs as L

htfstub.install_clock(L, TR)
logging.disable(logging.NOTSET)
logging.lastResort = None

PROPERTY = 'C19'
LEVEL = 'other'


def FUNCTIONS():
  return [L.TestUidFilter.filter, L.MacAddressLogFilter.filter, L.RecordHandler.__init__, L.RecordHandler.emit,
          L.initialize_record_handler, L.remove_record_handler, L.get_record_logger_for, L.HtfTestLogger.getChild,
          TR.TestRecord.add_log_record]


BOUNDS = {'attribution (E2)': 'uids u, v: any dot-free strings of length <= 12 (the shape make_uid produces has no dots); suffix: empty or "." + any string, total length <= 8',
          'histories (E1)': '<= 4 operations from {start run A/B, stop run A/B, log through A/B record logger, through a phase/plug child logger of A/B, through a framework logger under "openhtf", a helper calling setLevel on the record logger it obtained}; the two uids unrelated or one a proper prefix of the other, levels DEBUG..ERROR, message with/without %-args',
          'MAC redaction (E1)': 'two free octets out of six from a table of 6 hex pairs (mixed case), context before/after from {empty, space, "=", letter, ":", "-"}, optional trailing colon'}
STUBS = ['FakeClock for logging.time / util.time_millis (record timestamps are strictly increasing counters)', 'real logging dispatch (not stubbed)']
ASSUMPTIONS = ['uids contain no dots', 'single thread: interleavings inside the logging module and list.append are outside']
OUTSIDE = ['interleavings of logging threads of two concurrent runs (schedules)', 'uids containing dots', 'CLI formatter']


# =========================================================== E2: attribution ====

def _split_at_group(parsed):
  import re._constants as C  # type: ignore
  items = list(parsed)
  for i, (op, av) in enumerate(items):
    if op is C.SUBPATTERN and av[0] == 1:
      return items[:i], av[3], items[i + 1:]
  raise _smt.Untranslatable('no capture group 1')


@cond(engine='smt', timeout=900, timeout_thorough=3600,
      note='z3 strings/regex: record openhtf.test_record.<u>[.<suffix>] passes TestUidFilter(v) iff u == v')
def q_uid_attribution(tier):
  import re._constants as C  # type: ignore
  out = {'queries': 0, 'nontrivial': 0, 'samples': [], 'solver_time_s': 0.0}
  parsed = _smt.parse_pattern(L.RECORD_LOGGER_RE)
  pre, inner, post = _split_at_group(parsed)
  inner_items = list(inner)
  if not (len(inner_items) == 1 and inner_items[0][0] in (C.MAX_REPEAT,) and inner_items[0][1][0] == 0
          and inner_items[0][1][1] is C.MAXREPEAT):
    raise _smt.Untranslatable('capture group is not a greedy X* shape')
  charset = _smt.sre_to_z3(inner_items[0][1][2], L.RECORD_LOGGER_RE.flags)
  L_pre = _smt.sre_to_z3(pre, L.RECORD_LOGGER_RE.flags)
  L_in = z3.Star(charset)
  anyc = z3.Star(z3.AllChar(z3.ReSort(z3.StringSort())))
  L_post = z3.Concat(_smt.sre_to_z3(post, L.RECORD_LOGGER_RE.flags), anyc)
  u, v, s = z3.String('u'), z3.String('v'), z3.String('s')
  a, g, r = z3.String('a'), z3.String('g'), z3.String('r')
  nodot = z3.Star(z3.Intersect(z3.AllChar(z3.ReSort(z3.StringSort())), z3.Complement(z3.Re('.'))))
  ascii_ = z3.Star(z3.Range(chr(32), chr(126)))
  ulen = 12 if tier == 'quick' else 16
  name = z3.Concat(z3.StringVal(L.RECORD_LOGGER_PREFIX + '.'), u, s)
  shape = z3.And(z3.InRe(u, nodot), z3.InRe(v, nodot), z3.InRe(u, ascii_), z3.InRe(v, ascii_), z3.InRe(s, ascii_),
                 z3.Length(u) <= ulen, z3.Length(v) <= ulen, z3.Length(s) <= 8,
                 z3.Or(s == z3.StringVal(''), z3.PrefixOf(z3.StringVal('.'), s)))
  # the match of the live pattern on `name`: name = a.g.r, a in L(pre), g in X*, r in L(post).Sigma*,
  # greedy maximality of g: r is empty or its first character is not in X
  decomp = z3.And(name == z3.Concat(a, g, r), z3.InRe(a, L_pre), z3.InRe(g, L_in), z3.InRe(r, L_post),
                  z3.Or(r == z3.StringVal(''), z3.Not(z3.InRe(z3.SubString(r, 0, 1), charset))))
  passes = (g == v)
  neg = z3.And(shape, decomp, z3.Xor(passes, u == v))
  st, model, dt, _ = _smt.check(neg, timeout_s=600)
  out['queries'] += 1
  out['solver_time_s'] += round(dt, 2)
  out['samples'].append({'query': 'attribution', 'pattern': L.RECORD_LOGGER_RE.pattern, 'result': st, 'secs': round(dt, 2)})
  if st == 'sat':
    uu, vv, ss = [model.eval(x, model_completion=True).as_string() for x in (u, v, s)]
    rec = logging.LogRecord(L.RECORD_LOGGER_PREFIX + '.' + uu + ss, logging.INFO, __file__, 1, 'm', (), None)
    real = bool(L.TestUidFilter(vv).filter(rec))
    out.update(verdict='violated', replayed=(real != (uu == vv)), cex={'u': uu, 'v': vv, 'suffix': ss, 'real_passes': real},
               message='record %r vs uid %r: passes=%r' % (rec.name, vv, real))
    return out
  if st != 'unsat':
    out.update(verdict='unknown', message='solver: %s' % st)
    return out
  out['nontrivial'] += 1
  # vacuity guard + translator validation: a matching decomposition exists and agrees with `re` on a solver-chosen name
  st2, m2, dt2, _ = _smt.check(z3.And(shape, decomp, z3.Length(u) >= 3, z3.Length(s) >= 2), timeout_s=120)
  out['queries'] += 1
  if st2 != 'sat':
    out.update(verdict='unknown', message='vacuity guard: %s' % st2)
    return out
  uu, ss, gg = [m2.eval(x, model_completion=True).as_string() for x in (u, s, g)]
  mm = L.RECORD_LOGGER_RE.match(L.RECORD_LOGGER_PREFIX + '.' + uu + ss)
  if mm is None or mm.group('test_uid') != gg or gg != uu:
    out.update(verdict='violated', replayed=False, cex={'u': uu, 's': ss, 'g': gg}, message='translation disagrees with re')
    return out
  out['nontrivial'] += 1
  out['samples'].append({'witness_name': L.RECORD_LOGGER_PREFIX + '.' + uu + ss, 'group': gg})
  # names that are not record-logger names always pass (framework loggers)
  for nm in ('openhtf', 'openhtf.core.test_executor', 'openhtf.util.logs', 'openhtf.plugs.user_input', 'openhtf.test_recordx'):
    rec = logging.LogRecord(nm, logging.INFO, __file__, 1, 'm', (), None)
    if not L.TestUidFilter('anything').filter(rec):
      out.update(verdict='violated', replayed=True, cex={'name': nm}, message='framework logger %r filtered out' % nm)
      return out
  out['verdict'] = 'holds'
  return out


# ================================================== E1: the real filter function ==

import types as _types


@cond(timeout=600)
def c_uid_filter_symbolic(u: str, v: str, dotted: bool, tail: str) -> bool:
  """
  pre: len(u) <= 4 and len(v) <= 4 and len(tail) <= 2
  pre: '.' not in u and '.' not in v
  post: _
  """
  # the real TestUidFilter.filter on symbolic uids (CrossHair's own regex engine for symbolic str)
  name = L.RECORD_LOGGER_PREFIX + '.' + u + (('.' + tail) if dotted else '')
  rec = _types.SimpleNamespace(name=name)
  reach()
  return bool(L.TestUidFilter(v).filter(rec)) == (u == v)


# ============================================================== E1: histories ===

class _Run:
  def __init__(self, uid):
    self.uid = uid
    self.rec = TR.TestRecord(dut_id='d', station_id='s')
    self.notified = 0
    self.installed = False
    self.expected = []

  def notify(self):
    self.notified += 1


_LEVELS = (logging.DEBUG, logging.INFO, logging.WARNING, logging.ERROR)


def _handlers():
  return [h for h in logging.getLogger(L.LOGGER_PREFIX).handlers if isinstance(h, L.RecordHandler)]


def _history(ops, prefix_uids=False):
  htfstub.reset_clock()
  lg = logging.getLogger(L.LOGGER_PREFIX)
  lg.setLevel(logging.DEBUG)
  lg.propagate = False
  for h in _handlers():
    lg.removeHandler(h)
  base_handlers = len(lg.handlers)
  # uids of the make_uid shape; optionally one is a proper prefix of the other
  runs = {0: _Run('1234:abcd:ef01:1'), 1: _Run('1234:abcd:ef01:10' if prefix_uids else '1234:abcd:ef02:2')}
  framework = logging.getLogger('openhtf.core.verif_probe')
  n = 0
  ok = True
  for (op, who, lvl, form) in ops:
    run = runs[who]
    if op == 0:
      if not run.installed:
        L.initialize_record_handler(run.uid, run.rec, run.notify)
        run.installed = True
    elif op == 1:
      if run.installed:
        L.remove_record_handler(run.uid)
        run.installed = False
    elif op == 6:
      # a helper that was handed the run's record logger changes its level: nobody else is affected
      L.get_record_logger_for(run.uid).setLevel(logging.ERROR)
    else:
      n += 1
      if op == 2:
        logger = L.get_record_logger_for(run.uid)
      elif op == 3:
        logger = L.get_record_logger_for(run.uid).getChild('phase.p%d' % who)
      elif op == 4:
        logger = L.get_record_logger_for(run.uid).getChild('plug').getChild('MyPlug')
      else:
        logger = framework
      level = _LEVELS[lvl]
      if form == 0:
        logger.log(level, 'message %d' % n)
        text = 'message %d' % n
      else:
        logger.log(level, 'value %s of %d', 'x', n)
        text = 'value x of %d' % n
      for k, r in runs.items():
        if r.installed and (op == 5 or k == who):
          r.expected.append((level, logger.name, text))
  reach()
  for k, r in runs.items():
    got = [(x.level, x.logger_name, x.message) for x in r.rec.log_records]
    if got != r.expected:                      # exactly once, in emission order, own run only
      return False
    for x in r.rec.log_records:
      if x.source != os.path.basename(__file__) or not isinstance(x.lineno, int) or not isinstance(x.timestamp_millis, int):
        return False
    ts = [x.timestamp_millis for x in r.rec.log_records]
    if ts != sorted(ts):
      return False
    if r.notified != len(r.expected):
      return False
  # handler bookkeeping: exactly the installed runs have one handler each
  hs = _handlers()
  want = sorted(r.uid for r in runs.values() if r.installed)
  if sorted(h.test_uid for h in hs) != want:
    return False
  # end of all runs: no handler remains, later logging alters nothing
  for r in runs.values():
    if r.installed:
      L.remove_record_handler(r.uid)
      r.installed = False
  if _handlers() or len(lg.handlers) != base_handlers:
    return False
  before = [len(r.rec.log_records) for r in runs.values()]
  framework.error('after the end')
  L.get_record_logger_for(runs[0].uid).error('after the end')
  return [len(r.rec.log_records) for r in runs.values()] == before


@cond(timeout=1200, split={'o0': range(7), 'o1': range(7), 'n': (2, 3)},
      split_thorough={'o0': range(7), 'o1': range(7), 'o2': range(7), 'n': (4,)}, timeout_thorough=3600)
def c_log_histories(o0: int, w0: int, l0: int, f0: int, o1: int, w1: int, o2: int, w2: int, o3: int, w3: int, n: int, pu: bool) -> bool:
  """
  pre: 0 <= o0 <= 6 and 0 <= o1 <= 6 and 0 <= o2 <= 6 and 0 <= o3 <= 6
  pre: 0 <= w0 <= 1 and 0 <= w1 <= 1 and 0 <= w2 <= 1 and 0 <= w3 <= 1
  pre: 0 <= l0 <= 3 and 0 <= f0 <= 1
  pre: 2 <= n <= 4
  pre: n == 2 or (l0 == 0 and f0 == 0)
  post: _
  """
  # both runs are started (in a symbolic order), then 2-3 (quick) / 4 (thorough) symbolic operations;
  # level and message form are symbolic for the first operation of the 2-operation histories, fixed and distinct otherwise
  ops = [(0, w0, 0, 0), (0, 1 - w0, 0, 0)] + [(o0, w0, l0, f0), (o1, w1, 1, 1), (o2, w2, 2, 0), (o3, w3, 3, 0)][:n]
  return _history(ops, pu)


@cond(timeout=120, expect='refute')
def w_log_two_runs(o0: int, o1: int) -> bool:
  """
  pre: 0 <= o0 <= 5 and 0 <= o1 <= 5
  post: _
  """
  runs_ok = _history([(0, 0, 0, 0), (0, 1, 0, 0), (o0, 0, 1, 0), (o1, 1, 2, 1)])
  return not (runs_ok and o0 == 3 and o1 == 5)


# ============================================================ E1: MAC redaction ==

_HEX = ('00', 'fF', 'A9', '7c', 'De', '1b')
_CTX = ('', ' ', '=', 'x', ':', '-')


@cond(timeout=600, split={'pos': range(5)})
def c_mac_redaction(pos: int, i: int, j: int, before: int, after: int, tail_colon: bool, as_arg: bool) -> bool:
  """
  pre: 0 <= pos <= 4
  pre: 0 <= i <= 5 and 0 <= j <= 5
  pre: 0 <= before <= 5 and 0 <= after <= 5
  post: _
  """
  octets = ['f8', '8f', 'ca', '12', '34', '56']
  octets[pos] = _HEX[i]
  octets[pos + 1] = _HEX[j]
  mac = ':'.join(octets)
  b, a = _CTX[before], _CTX[after]
  if b in ('x', ':') or a in ('x',):
    return True          # not a delimited MAC address (glued to a word character / longer colon group)
  text = b + mac + (':' if tail_colon else '') + a
  if as_arg:
    rec = logging.LogRecord('openhtf.x', logging.INFO, __file__, 1, 'dev %s ok', (text,), None)
  else:
    rec = logging.LogRecord('openhtf.x', logging.INFO, __file__, 1, 'dev ' + text + ' ok', (), None)
  L.MAC_FILTER.filter(rec)
  msg = rec.getMessage()
  reach()
  vendor = ':'.join(octets[:3])
  rest = ':'.join(octets[3:])
  # redacted beyond the three-byte vendor prefix; the prefix and the context survive
  return (rest.lower() not in msg.lower()) and (vendor + ':<REDACTED>' in msg) and msg.startswith('dev ' + b) and msg.endswith(' ok')
