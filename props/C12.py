"""C12 - phase timeout and thread kill: no hang, no false timeout, kill confined to body.

E3: KillableThread.run / kill / _is_thread_proc_running and PhaseExecutorThread.join_or_die /
_thread_proc / _thread_exception are sequentialised from their live source and run as
coroutines on cooperative primitives with a virtual clock; the schedule (preemptions, picks),
the kill timing, the body length / duration and the deadline are symbolic.
"""
import logging
import types

import vlib.env  # noqa: F401
from vlib.cond import cond, reach, concrete, pin, untraced
from vlib.seqz import core as Z
from vlib.seqz import prims

from openhtf.core import phase_descriptor as PD
from openhtf.core import phase_executor as PE
from openhtf.util import threads as TH

PROPERTY = 'C12'
LEVEL = 'model_checking'
EXPLANATION = ('bounded model checking of the sequentialised real functions on a virtual clock: every schedule with at most K '
               'preemptions (statement granularity) and every symbolic duration/deadline within the bound is one path; CrossHair/z3 exhausts them. The schedule/duration variables are pinned by bisection (O(log n) solver decisions per path) and the pinned schedule then runs natively on the sequentialised code: z3 partitions and exhausts the domain under the preconditions, it does not reason symbolically inside a path.')

_G = {'threading': prims.threading, 'time': prims.time}
_NULL = logging.getLogger('verif.null')
_NULL.addHandler(logging.NullHandler())
_NULL.propagate = False
TTE = TH.ThreadTerminationError

_KT_NAMES = ['run', 'kill', '_is_thread_proc_running']
_ORIG = [getattr(TH.KillableThread, n) for n in _KT_NAMES] + [PE.PhaseExecutorThread.join_or_die, PE.PhaseExecutorThread._thread_proc,
                                                              PE.PhaseExecutorThread._thread_exception]


def FUNCTIONS():
  return list(_ORIG)


BOUNDS = {'kill semantics': 'one killable thread (body of 0..2 steps, may swallow the first ThreadTerminationError or raise its own exception) + one killer; kill before start (one preemption at any of 25 steps) / killer delayed by 0 or 2 steps with K <= 2 preemptions at any of 25 steps to any of the three threads',
          'join_or_die': 'body duration d in 0..8 or infinite, finish-handler duration f in 0..2, timeout_s in 1..4 (virtual seconds, _JOIN_TRY_INTERVAL_SECONDS from the live module), K <= 1 preemption'}
STUBS = ['cooperative Lock/Event/Thread and virtual time (vlib/seqz/prims.py)',
         'async_raise: marks the exception pending; it is thrown into the target coroutine at its next step if it is still alive (CPython delivers at the next bytecode boundary: statement granularity is the coarsening)',
         'PhaseExecutorThread built without TestState; the phase descriptor is a stub callable returning the scripted result']
ASSUMPTIONS = ['a body that ends within one polling interval (_JOIN_TRY_INTERVAL_SECONDS) after its deadline may be reported either way: the interval is read as the statement\'s "bounded delay"', 'preemption only between statements of the encoded functions', 'a kill whose kill() call began while the body ran may be delivered until the thread exits (the docstring\'s own caveat); the monitor only forbids deliveries for kills that began after the body returned']
OUTSIDE = ['the real asynchronous-exception mechanism (CPython C API), thread id reuse, bodies blocked in C calls, real time',
           'position of the timed-out phase in a group (C03 covers teardown after a scripted timeout)']


class _KT(prims.Thread):
  """Cooperative thread carrying the sequentialised KillableThread methods."""

  def __init__(self, name, body, log):
    prims.Thread.__init__(self, name=name)
    self._running_lock = prims.Lock()
    self._killed = prims.Event()
    self._profiler = None
    self._logger = _NULL
    self._body = body
    self.log = log

  def _thread_proc(self):
    return self._body(self)

  def _thread_finished(self):
    self.log.append(('finished', self._name))

  def _thread_exception(self, exc_type, exc_val, exc_tb):
    self.log.append(('exception-handler', exc_type.__name__))
    return exc_type is TTE

  def async_raise(self, exc_type):
    self.log.append(('async-raise', self._name, 'alive' if self.is_alive() else 'dead'))
    if self.co is not None:
      Z.SCHED[0].throw_into(self.co, exc_type())


for _n in _KT_NAMES:
  setattr(_KT, _n, Z.sequentialize(getattr(TH.KillableThread, _n), _G))


def _body_factory(nsteps, mode, log):
  """mode 0: return normally; 1: raise own exception; 2: swallow the first termination request."""
  def body(th):
    log.append(('body-start',))
    try:
      for i in range(nsteps):
        yield ('line', 'body-%d' % i)
    except TTE:
      log.append(('body-got-tte',))
      if mode != 2:
        raise
      yield ('line', 'body-after-swallow')
    log.append(('body-end',))
    if mode == 1:
      raise ValueError('body failed')
    return 'result'
  Z.mark(body)
  return body


def _killer(th, log, delay_steps):
  for i in range(delay_steps):
    yield ('line', 'killer-wait-%d' % i)
  log.append(('kill-call',))
  yield from Z.co(th.kill)
  log.append(('kill-return',))


def _starter(th, log, kill_first, killer_delay):
  if kill_first:
    log.append(('kill-call',))
    yield from Z.co(th.kill)
    log.append(('kill-return',))
  th.start()
  log.append(('started',))


@cond(timeout=600, split={'mode': range(3)})
def c_kill_before_start(nsteps: int, mode: int, p0: int, t0: int) -> bool:
  """
  pre: 0 <= nsteps <= 2 and 0 <= mode <= 2
  pre: 0 <= p0 <= 24 and 0 <= t0 <= 1
  post: _
  """
  return untraced(_kill_semantics, pin(nsteps, 0, 2), pin(mode, 0, 2), True, 0, pin(p0, 0, 24), pin(t0, 0, 1), 25, 0)


@cond(timeout=900, split={'mode': range(3), 'nsteps': range(3), 't0': range(3), 't1': range(3)})
def c_kill_semantics(nsteps: int, mode: int, delay: int, p0: int, t0: int, p1: int, t1: int) -> bool:
  """
  pre: 0 <= nsteps <= 2 and 0 <= mode <= 2
  pre: delay in (0, 2)
  pre: 0 <= p0 <= 24 and p0 <= p1 <= 24 and 0 <= t0 <= 2 and 0 <= t1 <= 2
  post: _
  """
  return untraced(_kill_semantics, pin(nsteps, 0, 2), pin(mode, 0, 2), False, concrete(delay, (0, 2)), pin(p0, 0, 24), pin(t0, 0, 2), pin(p1, 0, 24), pin(t1, 0, 2))


def _kill_semantics(nsteps, mode, kill_first, delay, p0, t0, p1, t1):
  log = []
  s = Z.Sched(preempt=[(p0, t0), (p1, t1)], max_steps=300, untraced=True)
  th = _KT('worker', _body_factory(nsteps, mode, log), log)
  s.spawn('starter', _starter(th, log, kill_first, 0))
  if not kill_first:
    s.spawn('killer', _killer(th, log, delay))
  try:
    s.run()
  except Z.Deadlock:
    return False
  reach()
  names = [e[0] for e in log]
  if th.co is None or th.co.alive:
    return False
  # handlers always run, exactly once
  if names.count('finished') != 1:
    return False
  if kill_first:
    # a kill requested before the thread started prevents its body from ever running
    return 'body-start' not in names and 'async-raise' not in names
  idx = {n: names.index(n) for n in set(names)}
  if 'kill-call' in idx and 'body-end' in idx and idx['kill-call'] > idx['body-end']:
    # a kill requested after the body returned has no effect: nothing is raised into the thread
    if 'async-raise' in names:
      return False
  if 'kill-return' in idx and 'body-start' in idx and idx['kill-return'] < idx['body-start']:
    # a kill that returned before the body started must suppress the body (it cannot be lost)
    if 'body-end' in names and 'body-got-tte' not in names:
      return False
  # the termination error is only ever raised in that thread (its coroutine), never surfaces as
  # an error of another kind, and an ordinary exception of the body reaches the exception handler
  if th.co.exc is not None and not isinstance(th.co.exc, TTE) and not (mode == 1 and isinstance(th.co.exc, ValueError)):
    return False          # (the base class re-raises an ordinary body exception after the handler declined it)
  if any(e[0] == 'exception-handler' and e[1] not in ('ValueError',) for e in log):
    return False
  if mode == 1 and 'async-raise' not in names and 'body-end' in names and ('exception-handler', 'ValueError') not in log:
    return False
  for c in s.cos:
    if c is not th.co and c.exc is not None:
      return False                # nobody else is affected by the kill
  return True


@cond(timeout=300, expect='refute')
def w_kill_lands_in_body(delay: int, p0: int, p1: int) -> bool:
  """
  pre: 0 <= delay <= 2 and 0 <= p0 <= 24 and p0 < p1 <= 24
  post: _
  """
  log = []
  delay = concrete(delay, range(3))
  s = Z.Sched(preempt=[(p0, 2), (p1, 1)], max_steps=300, untraced=True)     # to the worker, then back to the killer
  th = _KT('worker', _body_factory(2, 0, log), log)
  s.spawn('starter', _starter(th, log, False, 0))
  s.spawn('killer', _killer(th, log, delay))
  s.run()
  names = [e[0] for e in log]
  return not ('body-got-tte' in names and 'body-end' not in names)


# ------------------------------------------------------------- join_or_die -------

class _PT(_KT):
  """Cooperative PhaseExecutorThread: real join_or_die / _thread_proc / _thread_exception."""

  def __init__(self, duration, finish, timeout_s, result, log):
    self._phase_desc = _Desc(duration, timeout_s, result, log)
    self._test_state = types.SimpleNamespace(state_logger=_NULL)
    self._subtest_rec = None
    self._phase_execution_outcome = None
    self._finish = finish
    _KT.__init__(self, 'phase', None, log)

  def _log_exception(self, *a):
    return None

  def _thread_finished(self):
    # finish / log handlers may take (virtual) time
    self.log.append(('finished', self._name))
    if self._finish:
      yield from Z.co(prims.time.sleep, self._finish)
    yield ('line', 'finished-handler-done')
  Z.mark(_thread_finished)


class _Desc:
  def __init__(self, duration, timeout_s, result, log):
    self.duration, self.result, self.log = duration, result, log
    self.options = types.SimpleNamespace(timeout_s=timeout_s)
    self.name = 'phase'

  def __call__(self, test_state):
    return self._run()

  def _run(self):
    self.log.append(('body-start',))
    if self.duration is None:
      yield from Z.co(prims.Event().wait)          # never returns on its own
    elif self.duration:
      yield from Z.co(prims.time.sleep, self.duration)
    yield ('line', 'body-returning')
    self.log.append(('body-end', Z.SCHED[0].now))
    return self.result
  Z.mark(_run)


for _n in ('join_or_die', '_thread_proc', '_thread_exception'):
  setattr(_PT, _n, Z.sequentialize(getattr(PE.PhaseExecutorThread, _n), _G))


def _joiner(th, out):
  th.start()
  r = yield from Z.co(th.join_or_die)
  out.append((r, Z.SCHED[0].now))


@cond(timeout=900, split={'d': range(-1, 9)})
def c_join_or_die(d: int, f: int, timeout_s: int, rk: int, p0: int, t0: int) -> bool:
  """
  pre: -1 <= d <= 8 and 0 <= f <= 2 and 1 <= timeout_s <= 4
  pre: 0 <= rk <= 1
  pre: 0 <= p0 <= 40 and 0 <= t0 <= 1
  post: _
  """
  log, out = [], []
  f, timeout_s, rk = concrete(f, range(3)), concrete(timeout_s, range(1, 5)), concrete(rk, range(2))
  s = Z.Sched(preempt=[(p0, t0)], max_steps=400, untraced=True)
  result = (PD.PhaseResult.CONTINUE, PD.PhaseResult.FAIL_AND_CONTINUE)[rk]
  th = _PT(None if d < 0 else d, f, timeout_s, result, log)
  s.spawn('executor', _joiner(th, out))
  try:
    s.run()
  except Z.Deadlock:
    return False          # the executor must never hang
  reach()
  if len(out) != 1:
    return False
  outcome, t_ret = out[0]
  slack = PE._JOIN_TRY_INTERVAL_SECONDS           # the polling granularity: the "bounded delay"
  if d >= 0 and d < timeout_s:
    # a body that returns before its deadline is never reported as timed out and keeps its own result
    return outcome.phase_result is result and not outcome.is_timeout
  if d < 0 or d > timeout_s + slack:
    # still running when the timeout (plus the bounded delay) expires: TIMEOUT, and the executor proceeds
    return outcome.is_timeout and t_ret <= timeout_s + slack
  # deadline <= d <= deadline + polling interval: either the body's own result or TIMEOUT, never anything else
  return (outcome.is_timeout or outcome.phase_result is result) and t_ret <= timeout_s + slack
