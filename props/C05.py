"""C05 - phase result -> phase outcome mapping, repeat limit and run_if are exact.

E1: the real TestExecutor._execute_phase -> PhaseExecutor.execute_phase (repeat
loop, _should_repeat, _execute_phase_once), PhaseExecutorThread._thread_proc,
TestState.running_phase_context, PhaseState.finalize and helpers, diagnosers,
driven for one script-driven phase in three positions, against the decision
table of the statement.
"""
import copy

import vlib.env  # noqa: F401
from vlib.cond import cond, reach
from vlib import stubs, htfstub
from vlib import exe_harness as H

stubs.install_fmtshim(objects_opaque=True)
H.install_sync_threads()
H.quiet()

from openhtf.core import phase_descriptor as PD
from openhtf.core import phase_executor as PE
from openhtf.core import test_executor as TE
from openhtf.core import test_record as TR
from openhtf.core import test_state as TS
from openhtf.core import diagnoses_lib

PROPERTY = 'C05'
LEVEL = 'other'
STUBS = H.STUBS + ['fmtshim']
CONF = H.CONF


def FUNCTIONS():
  return [TE.TestExecutor._execute_phase, PE.PhaseExecutor.execute_phase, PE.PhaseExecutor._should_repeat,
          PE.PhaseExecutor._execute_phase_once, PE.PhaseExecutorThread._thread_proc,
          PE.PhaseExecutorThread._thread_exception, PE.PhaseExecutorThread.join_or_die,
          TS.TestState.running_phase_context, TS.PhaseState.finalize, TS.PhaseState._set_prediagnosis_phase_outcome,
          TS.PhaseState._set_postdiagnosis_phase_outcome, TS.PhaseState._execute_phase_diagnosers,
          TS.PhaseState._execute_phase_diagnoser, TS.PhaseState._measurements_pass,
          diagnoses_lib.DiagnosesManager.execute_phase_diagnoser, TR.PhaseRecord.finalize_phase]


BOUNDS = {'behaviours': 'per invocation: None, CONTINUE, FAIL_AND_CONTINUE, REPEAT, SKIP, STOP, FAIL_SUBTEST, non-PhaseResult (one of 42, 0, False, "", [], 0.0, "done", (), {}), exception, listed failure exception, timeout; <= 4 consecutive invocations',
          'options': 'repeat_limit in {None,1,2,3,4}; force_repeat, repeat_on_measurement_fail, repeat_on_timeout, stop_on_measurement_fail symbolic bools; run_if absent/True/False/raises',
          'measurement': 'one in_range(0,10, marginal 2..8) measurement; set to a symbolic int or left unset per invocation; allow_unset_measurements symbolic',
          'diagnosers': 'two phase diagnosers, each none/result/failure result/raises',
          'position': 'top level, inside a subtest, in a teardown (in_teardown=True); previous records: none / one PASS / one FAIL; stop_on_first_failure symbolic'}
ASSUMPTIONS = ['timeout is a scripted behaviour (the body does not return before the deadline); real elapsed time is C12']
OUTSIDE = ['run_under_pdb', 'profiling', 'timeout_s arithmetic (C12)']

D1 = H.make_phase_diagnoser('d1')
D2 = H.make_phase_diagnoser('d2')
PHASE = H.make_phase('p', measured=True, diag=[D1, D2])
PREV = H.make_phase('prev', measured=False)
TEST = H.make_test(PHASE)
TEST.configure(failure_exceptions=[H.ListedFailure])


_BV = [0]     # index of the non-PhaseResult return value used by behaviour 'bad-result'


class RunIfError(Exception):
  pass


def _mk_executor(prev_kind, soff):
  H.reset_globals()
  opts = copy.copy(TEST._test_options)
  opts.stop_on_first_failure = soff
  ex = TE.TestExecutor(TEST.descriptor, 'uid:c05', None, opts, False)
  ex.test_state = TS.TestState(TEST.descriptor, 'uid:c05', opts)
  ex._phase_exec = PE.PhaseExecutor(ex.test_state)
  if prev_kind:
    rec = TR.PhaseRecord.from_descriptor(PREV)
    rec.outcome = TR.PhaseOutcome.PASS if prev_kind == 1 else TR.PhaseOutcome.FAIL
    rec.result = PE.PhaseExecutionOutcome(PD.PhaseResult.CONTINUE)
    ex.test_state.test_record.add_phase_record(rec)
  return ex


def _phase_with(rl, fr, rmf, rt, smf, run_if, flagbox):
  ph = copy.copy(PHASE)
  o = PD.PhaseOptions(name='p', repeat_limit=rl, force_repeat=fr, repeat_on_measurement_fail=rmf,
                      repeat_on_timeout=rt, stop_on_measurement_fail=smf)
  if run_if == 1:
    o.run_if = lambda: True
  elif run_if == 2:
    o.run_if = lambda: False
  elif run_if == 3:
    def boom():
      raise RunIfError('run_if failed')
    o.run_if = boom
  ph.options = o
  return ph


# ---- decision table ------------------------------------------------------------

def _spec_invocation(b, mset, mval, au, d1, d2, smf, in_subtest, is_last):
  """(record outcome, result kind, terminal?, diagnosers ran?) of one body invocation."""
  # result kind
  if b in (H.B_NONE, H.B_CONTINUE):
    kind = 'continue'
  elif b == H.B_FAIL_AND_CONTINUE:
    kind = 'fail_and_continue'
  elif b == H.B_REPEAT:
    kind = 'repeat'
  elif b == H.B_SKIP:
    kind = 'skip'
  elif b == H.B_STOP:
    kind = 'stop'
  elif b == H.B_FAIL_SUBTEST:
    kind = 'fail_subtest' if in_subtest else 'exception'
  elif b in (H.B_BADRESULT, H.B_EXC, H.B_FAILEXC):
    kind = 'exception'
  else:
    kind = 'timeout'
  hit_limit = (kind == 'repeat' and is_last)
  terminal = kind in ('exception', 'timeout', 'stop')
  m_ok = (mset and 0 <= mval <= 10) or ((not mset) and au)
  if terminal or hit_limit:
    outcome = 'ERROR'
  elif kind in ('repeat', 'skip'):
    outcome = 'SKIP'
  elif kind in ('fail_subtest', 'fail_and_continue'):
    outcome = 'FAIL'
  elif not m_ok:
    outcome = 'FAIL'
    if smf:
      kind = 'stop'          # the failure is turned into a stop
      terminal = True
  else:
    outcome = 'PASS'
  diag_ran = kind not in ('repeat', 'skip') or (kind == 'stop' and False)
  if b in (H.B_REPEAT, H.B_SKIP):
    diag_ran = False
  # diagnosers: all of them run, even if one raises
  diag_raised = diag_ran and (d1 == 4 or d2 == 4)
  failure_diag = diag_ran and ((d1 == 3) or (d2 == 3))
  if outcome != 'ERROR':
    if terminal or diag_raised:
      outcome = 'ERROR'
    elif outcome == 'PASS' and failure_diag:
      outcome = 'FAIL'
  if diag_raised and not terminal:
    kind, terminal = 'exception', True
  return outcome, kind, terminal, diag_ran, hit_limit


def _body(rl_i, fr, rmf, rt, smf, run_if, pos, prev_kind, soff, au,
          b0, b1, b2, b3, mset, mval, d1, d2):
  rl = (None, 1, 2, 3, 4)[rl_i]
  limit = rl or 3
  ex = _mk_executor(prev_kind, soff)
  H.SCRIPT.bad_index = _BV[0]
  _BV[0] = 0
  ph = _phase_with(rl, fr, rmf, rt, smf, run_if, None)
  H.SCRIPT.beh = {'p': [b0, b1, b2, b3]}
  H.SCRIPT.meas = {'p': [(mset, mval)]}
  H.SCRIPT.diag = {'d1': [d1], 'd2': [d2]}
  sub = TR.SubtestRecord(name='st', start_time_millis=0, outcome=TR.SubtestOutcome.PASS) if pos == 1 else None
  CONF.load(allow_unset_measurements=bool(au))
  try:
    ret = ex._execute_phase(ph, sub, pos == 2)
  finally:
    ex.test_state.close()
    CONF.reset()
  reach()
  recs = [r for r in ex.test_state.test_record.phases if r.name == 'p']
  runs = [e for e in H.SCRIPT.log if e[0] == 'run']
  diag1 = [e for e in H.SCRIPT.log if e[0] == 'diag' and e[1] == 'd1']
  diag2 = [e for e in H.SCRIPT.log if e[0] == 'diag' and e[1] == 'd2']
  # ---- specification --------------------------------------------------------
  if run_if == 2:
    # a false run_if: the body is never invoked and no record is written
    return len(runs) == 0 and len(recs) == 0 and ret == TE._ExecutorReturn.CONTINUE
  if run_if == 3:
    return len(runs) == 0 and len(recs) == 0 and ret == TE._ExecutorReturn.TERMINAL
  bs = [b0, b1, b2, b3]
  exp = []
  i = 0
  while True:
    is_last = (i + 1) >= limit
    o, kind, terminal, diag_ran, hit = _spec_invocation(bs[i], mset, mval, au, d1, d2, smf, pos == 1, is_last)
    exp.append((o, kind, diag_ran))
    again = (kind == 'repeat') or fr or (kind == 'timeout' and rt) or (rmf and o == 'FAIL')
    if bs[i] == H.B_REPEAT:
      again = True
    if again and not is_last:
      i += 1
      continue
    break
  # exactly one record per invocation; at most repeat_limit invocations
  if len(runs) != len(exp) or len(recs) != len(exp) or len(runs) > limit:
    return False
  ndiag = 0
  for rec, (o, kind, diag_ran) in zip(recs, exp):
    if rec.outcome is None or rec.outcome.name != o:
      return False
    if rec.result is None or rec.options is None:
      return False
    if diag_ran:
      ndiag += 1
  # diagnosers: once per invocation that was neither skipped nor repeated, all of them
  if len(diag1) != ndiag or len(diag2) != ndiag:
    return False
  last_o, last_kind, _ = exp[-1]
  final_terminal = last_kind in ('exception', 'timeout', 'stop') or (last_kind == 'repeat')
  if soff and last_o == 'FAIL':
    final_terminal = True
  if (ret == TE._ExecutorReturn.TERMINAL) != final_terminal:
    return False
  if pos == 1 and last_kind == 'fail_subtest' and not final_terminal:
    return sub.outcome is TR.SubtestOutcome.FAIL
  return True


@cond(timeout=900, split={'b0': range(11), 'pos': range(3)})
def c_single_invocation_table(b0: int, pos: int, run_if: int, prev_kind: int, soff: bool, au: bool, smf: bool,
                              mset: bool, mval: int, d1: int) -> bool:
  """
  pre: 0 <= b0 <= 10 and 0 <= run_if <= 1
  pre: 0 <= pos <= 2 and 0 <= prev_kind <= 2
  pre: 0 <= d1 <= 4
  post: _
  """
  # one invocation (repeat_limit=1): the decision table incl. one diagnoser, position, previous record
  return _body(1, False, False, False, smf, run_if, pos, prev_kind, soff, au, b0, 0, 0, 0, mset, mval, d1, 0)


@cond(timeout=600, split={'bv': range(9)})
def c_bad_result_values(bv: int, pos: int, mset: bool, mval: int, soff: bool) -> bool:
  """
  pre: 0 <= bv < 9
  pre: 0 <= pos <= 2
  post: _
  """
  # any non-PhaseResult return value (truthy or falsy) is an ERROR, never a PASS
  _BV[0] = bv
  return _body(1, False, False, False, False, 0, pos, 0, soff, False, H.B_BADRESULT, 0, 0, 0, mset, mval, 0, 0)


@cond(timeout=600, split={'b0': (0, 2, 5, 8, 10)})
def c_two_diagnosers(b0: int, d1: int, d2: int, mset: bool, mval: int, pos: int) -> bool:
  """
  pre: b0 in (0, 2, 5, 8, 10)
  pre: 0 <= d1 <= 4 and 0 <= d2 <= 4
  pre: 0 <= pos <= 1
  post: _
  """
  # every diagnoser runs once per non-skipped, non-repeated invocation, even if one raises
  return _body(1, False, False, False, False, 0, pos, 0, False, False, b0, 0, 0, 0, mset, mval, d1, d2)


@cond(timeout=900, split={'rl_i': range(3), 'b0': (0, 2, 3, 4, 8, 10)},
      split_thorough={'rl_i': range(5), 'b0': (0, 2, 3, 4, 8, 10), 'b1': (0, 2, 3, 4, 8, 10)}, timeout_thorough=3600)
def c_repeat_loop(rl_i: int, fr: bool, rmf: bool, rt: bool, b0: int, b1: int, b2: int, b3: int,
                  mfail: bool, prev_kind: int) -> bool:
  """
  pre: 0 <= rl_i <= 4
  pre: b0 in (0, 2, 3, 4, 8, 10) and b1 in (0, 2, 3, 4, 8, 10) and b2 in (0, 3, 5, 10) and b3 in (0, 3)
  pre: prev_kind in (0, 2)
  post: _
  """
  return _body(rl_i, fr, rmf, rt, False, 0, 0, prev_kind, False, False, b0, b1, b2, b3, True, (50 if mfail else 5), 0, 0)


@cond(timeout=600, split={'run_if': (2, 3)})
def c_run_if_excludes(run_if: int, rl_i: int, fr: bool, rmf: bool, rt: bool, smf: bool, pos: int, prev_kind: int, soff: bool) -> bool:
  """
  pre: run_if in (2, 3)
  pre: 0 <= rl_i <= 4 and 0 <= pos <= 2 and 0 <= prev_kind <= 2
  post: _
  """
  return _body(rl_i, fr, rmf, rt, smf, run_if, pos, prev_kind, soff, False, 0, 0, 0, 0, True, 5, 0, 0)


@cond(timeout=600)
def c_run_if_consulted_before_every_invocation(n_true: int, rl_i: int, fr: bool, nrep: int) -> bool:
  """
  pre: 0 <= n_true <= 4 and 0 <= rl_i <= 4 and 0 <= nrep <= 3
  post: _
  """
  # run_if answers True n_true times and False from then on; the body asks nrep times to be repeated (REPEAT,
  # or every time under force_repeat).  "A false run_if means the body is never invoked and no record is written":
  # every invocation - re-invocations included - is preceded by its own run_if call that answered True.
  ex = _mk_executor(0, False)
  rl = (None, 1, 2, 3, 5)[rl_i]
  ph = _phase_with(rl, fr, False, False, False, 0, None)
  asked = [0]

  def run_if():
    asked[0] += 1
    H.SCRIPT.log.append(('run_if', 'p', asked[0]))
    return asked[0] <= n_true
  ph.options.run_if = run_if
  H.SCRIPT.beh = {'p': [(lambda k=k: H.B_REPEAT if k < nrep else H.B_NONE) for k in range(8)]}
  H.SCRIPT.meas = {'p': [(True, 5)]}
  try:
    ex._execute_phase(ph, None, False)
  finally:
    ex.test_state.close()
  reach()
  ev = ['q' if e[0] == 'run_if' else 'b' for e in H.SCRIPT.log if e[0] in ('run_if', 'run') and e[1] == 'p']
  recs = ex.test_state.test_record.phases
  limit = rl or 3
  # every body invocation is immediately preceded by a run_if call, and that call was one of the first n_true
  q = 0
  for i, e in enumerate(ev):
    if e == 'q':
      q += 1
    else:
      if i == 0 or ev[i - 1] != 'q' or q > n_true:
        return False
  nb = ev.count('b')
  return len(recs) == nb and nb <= min(limit, n_true)


@cond(timeout=120, expect='refute')
def w_repeat_limit_hit(b0: int, b1: int, b2: int) -> bool:
  """
  pre: 0 <= b0 <= 10 and 0 <= b1 <= 10 and 0 <= b2 <= 10
  post: _
  """
  ex = _mk_executor(0, False)
  ph = _phase_with(None, False, False, False, False, 0, None)
  H.SCRIPT.beh = {'p': [b0, b1, b2]}
  H.SCRIPT.meas = {'p': [(True, 5)]}
  try:
    ex._execute_phase(ph, None, False)
  finally:
    ex.test_state.close()
  recs = ex.test_state.test_record.phases
  # witness: three invocations, the last one exceeding the default repeat limit
  return not (len(recs) == 3 and recs[2].outcome is TR.PhaseOutcome.ERROR and recs[0].outcome is TR.PhaseOutcome.SKIP)
