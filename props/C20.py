"""C20 - configuration: flag > loaded > default, consistent views, exact restore.

Inductive step on the real `_Configuration`: the three maps of a fresh object
are installed directly as LazyDicts over a concrete key universe whose presence
bits and values are symbolic; ONE operation with symbolic arguments is applied
and every read API is compared with a reference model.  Because the pre-state
is arbitrary, one step covers operation histories of any length over this
universe.
"""
import argparse
import collections.abc
import io
import threading

import vlib.env  # noqa: F401
from vlib.cond import cond, reach
from vlib import stubs

stubs.install_fmtshim()

from openhtf.util import configuration as C

PROPERTY = 'C20'
LEVEL = 'other'


def FUNCTIONS():
  K = C._Configuration
  return [K.__getitem__, K.__getattr__, K.__setattr__, K.__contains__, K.declare, K.reset,
          K.load_from_file, K.load, K.load_from_dict, K._asdict, K.save_and_restore,
          K.load_flag_values, C._ConfigValueHolder.value.fget, C._ConfigValueHolder.default.fget]


BOUNDS = {
    'key universe': "readers/mutators: {'a','b' declarable, 'z' never declared}; _asdict point-wise: {'a','z'}",
    'pre-state': 'arbitrary: per key declared?/has default?/default/loaded?/loaded value/flag?/flag value, all symbolic',
    'values': 'symbolic ints, or None (symbolic is-None bit per value)',
    'history': 'one inductive step from an arbitrary state (covers histories of any length over the universe)',
    'load_from_file': 'YAML text built from <=2 entries with values from {0, 7, None}',
    'flag strings': "finite list of 'k=v' strings",
}
STUBS = [
    'LazyDict: the three dicts of _Configuration are replaced by mappings over the concrete key universe whose presence bits/values are symbolic and are forked on only when the code consults them',
    'logger: _Configuration._logger replaced by a no-op object (log text is not the subject)',
    'construction: object.__new__(_Configuration) + slots; __init__ (argv parsing) is not the subject',
    'fmtshim (exception message texts with symbolic values are not checked)',
]
ASSUMPTIONS = ['keys outside the universe behave like keys inside it (the code is uniform in the key; stated, not proved)',
               'single-threaded use (the RLock is not examined)']
OUTSIDE = ['--config-file handling at import', 'thread-safety of CONF', 'inject_positional_args / bind_init_args / help_text']

UNIVERSE = ('a', 'b', 'z')
NOT_SET = C._DefaultSetting.NOT_SET


import types as _types
_THUNK_TYPES = (_types.FunctionType, _types.MethodType)


class _NullLogger:
  def _n(self, *a, **k):
    return None
  debug = info = warning = error = exception = critical = log = _n


class LazyDict(collections.abc.MutableMapping):
  """Mapping over a concrete key universe with symbolic presence bits and values."""

  def __init__(self, keys, present, values):
    self._keys = list(keys)
    self._present = dict(zip(keys, present))   # key -> (symbolic) bool
    self._values = dict(zip(keys, values))     # key -> thunk or value

  def _val(self, k):
    v = self._values[k]
    # NB: never use callable() here: CrossHair realises its argument.
    if type(v) in _THUNK_TYPES:
      v = v()
      self._values[k] = v
    return v

  def __contains__(self, k):
    if isinstance(k, bytes) or k not in self._present:
      return False
    return bool(self._present[k])

  def __getitem__(self, k):
    if k in self:
      return self._val(k)
    raise KeyError(k)

  def get(self, k, default=None):
    if k in self:
      return self._val(k)
    return default

  def __setitem__(self, k, v):
    if k not in self._present:
      self._keys.append(k)
    self._present[k] = True
    self._values[k] = v

  def setdefault(self, k, v):
    if k in self:
      return self._val(k)
    self[k] = v
    return v

  def __iter__(self):
    for k in list(self._keys):
      if self._present[k]:
        yield k

  def keys(self):
    return list(iter(self))

  def items(self):
    return [(k, self._val(k)) for k in self]

  def values(self):
    return [self._val(k) for k in self]

  def __len__(self):
    return len(self.keys())

  def update(self, other=(), **kw):
    for k in other.keys():
      self[k] = other[k]

  def __delitem__(self, k):
    if k not in self:
      raise KeyError(k)
    self._present[k] = False


def _opt(isnone, v):
  return (lambda: None if isnone else v)


class St:
  """Symbolic pre-state for one key."""

  def __init__(self, declared, hasdef, dnone, dval, loaded, lnone, lval, flag, fnone, fval):
    self.declared, self.hasdef, self.dnone, self.dval = declared, hasdef, dnone, dval
    self.loaded, self.lnone, self.lval = loaded, lnone, lval
    self.flag, self.fnone, self.fval = flag, fnone, fval

  def default(self):
    return None if self.dnone else self.dval

  def loadedv(self):
    return None if self.lnone else self.lval

  def flagv(self):
    return None if self.fnone else self.fval


def _mk_conf(keys, sts):
  """Real _Configuration whose maps hold the symbolic pre-state."""
  conf = object.__new__(C._Configuration)
  object.__setattr__(conf, '_logger', _NullLogger())
  object.__setattr__(conf, '_lock', threading.RLock())
  object.__setattr__(conf, 'ARG_PARSER', C.ARG_PARSER)
  object.__setattr__(conf, '_flags', argparse.Namespace(config_file=None, config_value=[]))
  decls = LazyDict(keys, [s.declared for s in sts],
                   [(lambda k=k, s=s: C.Declaration(k, default_value=(s.default() if s.hasdef else NOT_SET)))
                    for k, s in zip(keys, sts)])
  loaded = LazyDict(keys, [s.loaded for s in sts], [s.loadedv for s in sts])
  flags = LazyDict(keys, [s.flag for s in sts], [s.flagv for s in sts])
  object.__setattr__(conf, '_declarations', decls)
  object.__setattr__(conf, '_loaded_values', loaded)
  object.__setattr__(conf, '_flag_values', flags)
  return conf


# --------------------------------------------------------------- model ------

_UNDECL, _UNSET = 'UNDECLARED', 'UNSET'


def _model_read(declared, hasdef, default, loaded, lval, flag, fval):
  """(kind, value) of reading a key: flag > loaded > default > Unset; undeclared never readable."""
  # default / lval / fval may be thunks: evaluated only when that source decides
  if not declared:
    return (_UNDECL, None)
  if flag:
    return ('v', _force(fval))
  if loaded:
    return ('v', _force(lval))
  if hasdef:
    return ('v', _force(default))
  return (_UNSET, None)


def _force(x):
  return x() if type(x) in _THUNK_TYPES else x


def _same(a, b):
  if a is None or b is None:
    return a is None and b is None
  return a == b


def _read_all(conf, k, holder):
  """Observes key k through every read API; returns a list of (kind, value)."""
  obs = []
  for how in range(3):
    try:
      if how == 0:
        v = conf[k]
      elif how == 1:
        v = getattr(conf, k)
      else:
        if holder is None:
          continue
        v = holder.value
      obs.append(('v', v))
    except C.UndeclaredKeyError:
      obs.append((_UNDECL, None))
    except C.UnsetKeyError:
      obs.append((_UNSET, None))
  return obs


def _check_reads(conf, k, exp, holder=None):
  for kind, v in _read_all(conf, k, holder):
    if kind != exp[0]:
      return False
    if kind == 'v' and not _same(v, exp[1]):
      return False
  has = (k in conf)
  if exp[0] == 'v' and not has:
    return False
  if exp[0] in (_UNSET, _UNDECL) and has:
    return False
  return True


def _check_asdict_point(conf, k, exp, loaded_present, loaded_val):
  snap = conf._asdict()
  if exp[0] == 'v':
    return k in snap and _same(snap[k], exp[1])
  if exp[0] == _UNSET:
    return k not in snap
  # undeclared keys are never readable; _asdict mirrors the loaded map for them
  if loaded_present:
    return k in snap and _same(snap[k], loaded_val)
  return k not in snap


def _states(args):
  out = []
  for i in range(0, len(args), 10):
    out.append(St(*args[i:i + 10]))
  return out


# ---------------------------------------------------------- (i) readers ------

@cond(timeout=300, split={'ki': range(3)})
def c_read_agree(ki: int,
                 a_decl: bool, a_hd: bool, a_dn: bool, a_dv: int, a_ld: bool, a_ln: bool, a_lv: int, a_fl: bool, a_fn: bool, a_fv: int,
                 b_decl: bool, b_hd: bool, b_dn: bool, b_dv: int, b_ld: bool, b_ln: bool, b_lv: int, b_fl: bool, b_fn: bool, b_fv: int,
                 z_ld: bool, z_ln: bool, z_lv: int, z_fl: bool, z_fn: bool, z_fv: int) -> bool:
  """
  pre: 0 <= ki < 3
  post: _
  """
  sa = St(a_decl, a_hd, a_dn, a_dv, a_ld, a_ln, a_lv, a_fl, a_fn, a_fv)
  sb = St(b_decl, b_hd, b_dn, b_dv, b_ld, b_ln, b_lv, b_fl, b_fn, b_fv)
  sz = St(False, False, False, 0, z_ld, z_ln, z_lv, z_fl, z_fn, z_fv)
  conf = _mk_conf(UNIVERSE, [sa, sb, sz])
  k = UNIVERSE[ki]
  s = (sa, sb, sz)[ki]
  holder = None
  if k != 'z' and s.declared:
    holder = C._ConfigValueHolder(conf._declarations[k], conf)
  obs_ok = True
  # run the code first, then evaluate the model on the (now mostly decided) bits
  reads = _read_all(conf, k, holder)
  has = (k in conf)
  exp = _model_read(s.declared, s.hasdef, s.default, s.loaded, s.loadedv, s.flag, s.flagv)
  reach()
  for kind, v in reads:
    if kind != exp[0] or (kind == 'v' and not _same(v, exp[1])):
      obs_ok = False
  if has != (exp[0] == 'v'):
    obs_ok = False
  if holder is not None and s.hasdef and not _same(holder.default, s.default()):
    obs_ok = False
  return obs_ok


@cond(timeout=60, expect='refute')
def w_read_flag_wins(a_ld: bool, a_lv: int, a_fl: bool, a_fv: int) -> bool:
  """
  post: _
  """
  sa = St(True, True, False, 5, a_ld, False, a_lv, a_fl, False, a_fv)
  conf = _mk_conf(('a',), [sa])
  return not (a_ld and a_fl and a_lv != a_fv and conf['a'] == a_fv)


@cond(timeout=600)
def c_asdict_pointwise(ki: int,
                       a_decl: bool, a_hd: bool, a_dn: bool, a_dv: int, a_ld: bool, a_ln: bool, a_lv: int, a_fl: bool, a_fn: bool, a_fv: int,
                       z_ld: bool, z_ln: bool, z_lv: int, z_fl: bool, z_fn: bool, z_fv: int) -> bool:
  """
  pre: 0 <= ki < 2
  post: _
  """
  keys = ('a', 'z')
  sa = St(a_decl, a_hd, a_dn, a_dv, a_ld, a_ln, a_lv, a_fl, a_fn, a_fv)
  sz = St(False, False, False, 0, z_ld, z_ln, z_lv, z_fl, z_fn, z_fv)
  conf = _mk_conf(keys, [sa, sz])
  snap = conf._asdict()
  k = keys[ki]
  s = (sa, sz)[ki]
  exp = _model_read(s.declared, s.hasdef, s.default, s.loaded, s.loadedv, s.flag, s.flagv)
  reach()
  if exp[0] == 'v':
    ok = k in snap and _same(snap[k], exp[1])
  elif exp[0] == _UNSET:
    ok = k not in snap
  else:
    ok = (k in snap and _same(snap[k], s.loadedv())) if s.loaded else (k not in snap)
  # the snapshot agrees with item access for declared keys
  if s.declared:
    try:
      v = conf[k]
      ok = ok and k in snap and _same(snap[k], v)
    except C.UnsetKeyError:
      ok = ok and k not in snap
  return ok


# --------------------------------------------------------- (ii) mutators -----

def _two(args):
  sa = St(*args[0:10])
  sb = St(*args[10:20])
  return sa, sb


@cond(timeout=600, split={'ki': range(2), 'ri': range(2)})
def c_load_from_dict(ki: int, ri: int, override: bool, allow: bool, vnone: bool, v: int, via: int,
                     a_decl: bool, a_hd: bool, a_dn: bool, a_dv: int, a_ld: bool, a_ln: bool, a_lv: int, a_fl: bool, a_fn: bool, a_fv: int,
                     b_decl: bool, b_hd: bool, b_dn: bool, b_dv: int, b_ld: bool, b_ln: bool, b_lv: int, b_fl: bool, b_fn: bool, b_fv: int) -> bool:
  """
  pre: 0 <= ki < 2 and 0 <= ri < 2
  pre: 0 <= via <= 1
  post: _
  """
  keys = ('a', 'b')
  sa = St(a_decl, a_hd, a_dn, a_dv, a_ld, a_ln, a_lv, a_fl, a_fn, a_fv)
  sb = St(b_decl, b_hd, b_dn, b_dv, b_ld, b_ln, b_lv, b_fl, b_fn, b_fv)
  conf = _mk_conf(keys, [sa, sb])
  k, r = keys[ki], keys[ri]
  val = None if vnone else v
  if via == 0:
    conf.load_from_dict({k: val}, _override=override, _allow_undeclared=allow)
  else:
    conf.load(_override=override, _allow_undeclared=allow, **{k: val})
  s = (sa, sb)[ri]
  loaded, lval = s.loaded, s.loadedv
  if r == k:
    sk = s
    if (sk.declared or allow) and (override or not sk.loaded):
      loaded, lval = True, val
  exp = _model_read(s.declared, s.hasdef, s.default, loaded, lval, s.flag, s.flagv)
  reach()
  # loaded map itself: undeclared keys are not loaded unless explicitly allowed
  lm_ok = (r in conf._loaded_values) == bool(loaded) and (not loaded or _same(conf._loaded_values[r], _force(lval)))
  return lm_ok and _check_reads(conf, r, exp)


@cond(timeout=60, expect='refute')
def w_load_override_false(a_lv: int, v: int) -> bool:
  """
  post: _
  """
  sa = St(True, False, False, 0, True, False, a_lv, False, False, 0)
  conf = _mk_conf(('a',), [sa])
  conf.load(_override=False, a=v)
  return not (v != a_lv and conf['a'] == a_lv)


_YAML_VALS = (0, 7, None)


@cond(timeout=900, split={'ki': range(2), 'vi': range(3)})
def c_load_from_file(ki: int, vi: int, override: bool, allow: bool, two: bool,
                     a_decl: bool, a_hd: bool, a_dn: bool, a_dv: int, a_ld: bool, a_ln: bool, a_lv: int, a_fl: bool, a_fn: bool, a_fv: int) -> bool:
  """
  pre: 0 <= ki < 2 and 0 <= vi < 3
  post: _
  """
  keys = ('a', 'z')
  sa = St(a_decl, a_hd, a_dn, a_dv, a_ld, a_ln, a_lv, a_fl, a_fn, a_fv)
  sz = St(False, False, False, 0, False, False, 0, False, False, 0)
  conf = _mk_conf(keys, [sa, sz])
  k = keys[ki]
  val = _YAML_VALS[vi]
  text = '%s: %s\n' % (k, 'null' if val is None else val)
  if two:
    text += 'q: 1\n'      # a second, never-declared key in the same file
  conf.load_from_file(io.StringIO(text), _override=override, _allow_undeclared=allow)
  reach()
  ok = True
  for r, s in (('a', sa), ('z', sz)):
    loaded, lval = s.loaded, s.loadedv
    if r == k and (s.declared or allow) and (override or not s.loaded):
      loaded, lval = True, val
    exp = _model_read(s.declared, s.hasdef, s.default, loaded, lval, s.flag, s.flagv)
    ok = ok and (r in conf._loaded_values) == bool(loaded) and _check_reads(conf, r, exp)
  ok = ok and (('q' in conf._loaded_values) == bool(two and allow))
  return ok


@cond(timeout=120)
def c_load_from_file_invalid(which: int) -> bool:
  """
  pre: 0 <= which <= 2
  post: _
  """
  conf = _mk_conf(('a',), [St(True, False, False, 0, False, False, 0, False, False, 0)])
  text = ('- 1\n- 2\n', 'a: [1, 2\n', '42\n')[which]
  reach()
  try:
    conf.load_from_file(io.StringIO(text))
  except C.ConfigurationInvalidError:
    return 'a' not in conf._loaded_values
  return False


_FLAG_STRS = ('a=1', 'a=null', 'a=x', 'b=2', 'z=3', 'a=5=6')
_FLAG_PARSED = {'a=1': ('a', 1), 'a=null': ('a', None), 'a=x': ('a', 'x'), 'b=2': ('b', 2), 'z=3': ('z', 3), 'a=5=6': ('a', '5=6')}


@cond(timeout=900, split={'f0': range(6)})
def c_load_flag_values(f0: int, f1: int, n: int,
                       a_decl: bool, a_hd: bool, a_dn: bool, a_dv: int, a_ld: bool, a_ln: bool, a_lv: int, a_fl: bool, a_fn: bool, a_fv: int) -> bool:
  """
  pre: 0 <= f0 < 6 and 0 <= f1 < 6 and 1 <= n <= 2
  post: _
  """
  sa = St(a_decl, a_hd, a_dn, a_dv, a_ld, a_ln, a_lv, a_fl, a_fn, a_fv)
  conf = _mk_conf(('a',), [sa])
  strs = [_FLAG_STRS[f0], _FLAG_STRS[f1]][:n]
  conf.load_flag_values(argparse.Namespace(config_value=list(strs)))
  flag, fval = sa.flag, sa.flagv
  for st in strs:
    k, v = _FLAG_PARSED[st]
    if k == 'a' and not flag:
      flag, fval = True, v          # the first flag given for a key wins
  exp = _model_read(sa.declared, sa.hasdef, sa.default, sa.loaded, sa.loadedv, flag, fval)
  reach()
  return _check_reads(conf, 'a', exp)


@cond(timeout=600, split={'ri': range(2)})
def c_reset(ri: int,
            a_decl: bool, a_hd: bool, a_dn: bool, a_dv: int, a_ld: bool, a_ln: bool, a_lv: int, a_fl: bool, a_fn: bool, a_fv: int,
            b_decl: bool, b_hd: bool, b_dn: bool, b_dv: int, b_ld: bool, b_ln: bool, b_lv: int, b_fl: bool, b_fn: bool, b_fv: int) -> bool:
  """
  pre: 0 <= ri < 2
  post: _
  """
  keys = ('a', 'b')
  sa = St(a_decl, a_hd, a_dn, a_dv, a_ld, a_ln, a_lv, a_fl, a_fn, a_fv)
  sb = St(b_decl, b_hd, b_dn, b_dv, b_ld, b_ln, b_lv, b_fl, b_fn, b_fv)
  conf = _mk_conf(keys, [sa, sb])
  conf.reset()
  r = keys[ri]
  s = (sa, sb)[ri]
  exp = _model_read(s.declared, s.hasdef, s.default, False, None, s.flag, s.flagv)
  reach()
  return len(list(conf._loaded_values.keys())) == 0 and _check_reads(conf, r, exp)


@cond(timeout=600, split={'ri': range(2)})
def c_declare(ri: int, with_default: bool, dnone: bool, dv: int,
              a_decl: bool, a_hd: bool, a_dn: bool, a_dv: int, a_ld: bool, a_ln: bool, a_lv: int, a_fl: bool, a_fn: bool, a_fv: int,
              b_decl: bool, b_hd: bool, b_dn: bool, b_dv: int, b_ld: bool, b_ln: bool, b_lv: int, b_fl: bool, b_fn: bool, b_fv: int) -> bool:
  """
  pre: 0 <= ri < 2
  post: _
  """
  keys = ('a', 'b')
  sa = St(a_decl, a_hd, a_dn, a_dv, a_ld, a_ln, a_lv, a_fl, a_fn, a_fv)
  sb = St(b_decl, b_hd, b_dn, b_dv, b_ld, b_ln, b_lv, b_fl, b_fn, b_fv)
  conf = _mk_conf(keys, [sa, sb])
  newdef = None if dnone else dv
  holder = None
  try:
    if with_default:
      holder = conf.declare('a', 'desc', default_value=newdef)
    else:
      holder = conf.declare('a')
    raised = False
  except C.KeyAlreadyDeclaredError:
    raised = True
  reach()
  if raised != bool(sa.declared):       # keys can not be redeclared
    return False
  r = keys[ri]
  s = (sa, sb)[ri]
  declared, hasdef, default = s.declared, s.hasdef, s.default
  if r == 'a' and not raised:
    declared, hasdef, default = True, with_default, newdef
  exp = _model_read(declared, hasdef, default, s.loaded, s.loadedv, s.flag, s.flagv)
  return _check_reads(conf, r, exp, holder if r == 'a' else None)


@cond(timeout=120)
def c_declare_invalid_and_setattr(which: int, v: int,
                                  a_decl: bool, a_hd: bool, a_dn: bool, a_dv: int, a_ld: bool, a_ln: bool, a_lv: int, a_fl: bool, a_fn: bool, a_fv: int) -> bool:
  """
  pre: 0 <= which <= 2
  post: _
  """
  sa = St(a_decl, a_hd, a_dn, a_dv, a_ld, a_ln, a_lv, a_fl, a_fn, a_fv)
  conf = _mk_conf(('a',), [sa])
  reach()
  if which == 0:
    try:
      conf.declare('Upper')
      return False
    except C.InvalidKeyError:
      pass
  elif which == 1:
    try:
      conf.declare('')
      return False
    except C.InvalidKeyError:
      pass
  else:
    try:
      conf.a = v          # keys can not be set by attribute assignment
      return False
    except AttributeError:
      pass
  exp = _model_read(sa.declared, sa.hasdef, sa.default, sa.loaded, sa.loadedv, sa.flag, sa.flagv)
  return _check_reads(conf, 'a', exp)


class _Boom(Exception):
  pass


@cond(timeout=1200, split={'ri': range(2), 'inner_key': range(2)})
def c_save_and_restore(ri: int, raises: bool, inline: bool, inner_key: int, v1: int, v2: int, inner_override: bool,
                       a_decl: bool, a_hd: bool, a_dn: bool, a_dv: int, a_ld: bool, a_ln: bool, a_lv: int, a_fl: bool, a_fn: bool, a_fv: int,
                       b_decl: bool, b_hd: bool, b_dn: bool, b_dv: int, b_ld: bool, b_ln: bool, b_lv: int, b_fl: bool, b_fn: bool, b_fv: int) -> bool:
  """
  pre: 0 <= ri < 2 and 0 <= inner_key < 2
  post: _
  """
  keys = ('a', 'b')
  sa = St(a_decl, a_hd, a_dn, a_dv, a_ld, a_ln, a_lv, a_fl, a_fn, a_fv)
  sb = St(b_decl, b_hd, b_dn, b_dv, b_ld, b_ln, b_lv, b_fl, b_fn, b_fv)
  conf = _mk_conf(keys, [sa, sb])
  seen_inside = []

  def body():
    conf.load_from_dict({keys[inner_key]: v2}, _override=inner_override, _allow_undeclared=True)
    seen_inside.append(1)
    if raises:
      raise _Boom()
    return 'ret'

  if inline:
    wrapped = conf.save_and_restore(a=v1)(body)
  else:
    wrapped = conf.save_and_restore(body)
  got_exc = False
  ret = None
  try:
    ret = wrapped()
  except _Boom:
    got_exc = True
  reach()
  if got_exc != raises or (not raises and ret != 'ret') or len(seen_inside) != 1:
    return False
  # exactly the loaded values present at call time are restored, even if the function raised
  r = keys[ri]
  s = (sa, sb)[ri]
  lm = conf._loaded_values
  if (r in lm) != bool(s.loaded):
    return False
  if s.loaded and not _same(lm[r], s.loadedv()):
    return False
  exp = _model_read(s.declared, s.hasdef, s.default, s.loaded, s.loadedv, s.flag, s.flagv)
  if not _check_reads(conf, r, exp):
    return False
  # after restore, a later load(_override=False) on a key that was not loaded takes effect
  if not s.loaded and s.declared:
    conf.load(_override=False, **{r: 12345})
    exp2 = _model_read(True, s.hasdef, s.default, True, 12345, s.flag, s.flagv)
    return _check_reads(conf, r, exp2)
  return True


@cond(timeout=60, expect='refute')
def w_save_and_restore(a_ld: bool, a_lv: int, v2: int) -> bool:
  """
  post: _
  """
  sa = St(True, False, False, 0, a_ld, False, a_lv, False, False, 0)
  conf = _mk_conf(('a',), [sa])
  inside = []

  def body():
    conf.load(a=v2)
    inside.append(conf['a'])
  conf.save_and_restore(body)()
  return not (a_ld and v2 != a_lv and inside[0] == v2 and conf['a'] == a_lv)
