"""C18 - state subscriptions never lose an update (snapshot + event protocol).

E3: the real SubscribableStateMixin.asdict_with_event / notify_update and
PlugManager.wait_for_plug_update are sequentialised from their live source
(statement-level preemption points) and run with cooperative primitives under
a scheduler whose decisions are symbolic ints; CrossHair exhausts the schedules
within the preemption bound.
"""
import vlib.env  # noqa: F401
from vlib.cond import cond, reach, pin, untraced
from vlib.seqz import core as Z
from vlib.seqz import prims

from openhtf import util as htf_util
from openhtf import plugs as plugs_mod
from openhtf.core import base_plugs

PROPERTY = 'C18'
LEVEL = 'model_checking'
EXPLANATION = ('bounded model checking of the sequentialised real functions: every schedule with at most K preemptions '
               '(statement granularity) is one path; CrossHair/z3 exhausts the path tree (quick tier: schedule ints compared symbolically at every step; thorough tier: pinned by bisection, the pinned schedule runs natively)')

_ORIG = Z.encode_methods(htf_util.SubscribableStateMixin, ['asdict_with_event', 'notify_update'],
                         {'threading': prims.threading})
_ORIG += Z.encode_methods(plugs_mod.PlugManager, ['wait_for_plug_update'], {'threading': prims.threading})


def FUNCTIONS():
  return list(_ORIG)


BOUNDS = {'threads': 'quick: 1 watcher x 1 updater (2 updates) and 2 watchers x 1 updater; thorough: 2 watchers x 2 updaters',
          'preemptions': 'quick: K <= 2 preemptions for 1 watcher x 1 updater, K <= 1 plus two symbolic thread picks for 2 watchers x 1 updater; thorough: 2 watchers x 1 updater with K <= 2 plus two picks and K <= 3, 2 watchers x 2 updaters with K <= 2 (steps 0..60) plus two picks; preemption steps range over every step of the run (runs are <= 35 steps), statement-level yields inside the encoded functions, plus the choice of the next thread whenever the running one blocks or ends',
          'watcher loop': '<= 3 snapshot/wait iterations'}
STUBS = ['cooperative Lock/Event (vlib/seqz/prims.py) instead of threading; scheduler with virtual time',
         'WeakSet replaced by a plain set (watchers keep their events alive in the harness)']
ASSUMPTIONS = ['preemption only between statements of the encoded functions; callees outside the set (set.add, Event.set, _asdict) are atomic']
OUTSIDE = ['weak-reference collection timing', 'the tornado/station-server side', 'the "whole test runs under random schedules" part of the quantifier (sampling)',
           'call-site coverage (every state change followed by notify_update) is not part of this condition']


class Obj(htf_util.SubscribableStateMixin):
  def __init__(self, log):
    self._lock = prims.Lock()
    self._update_events = set()
    self.version = 0
    self.log = log

  def _asdict(self):
    self.log.append(('snap-taken', Z.SCHED[0].current().name, self.version))
    return {'v': self.version}


def _watcher(obj, log, name, final, iters):
  for _ in range(iters):
    state, ev = yield from Z.co(obj.asdict_with_event)
    log.append(('watch', name, state['v'], ev, len([e for e in log if e[0] == 'notify-start'])))
    if state['v'] >= final:
      return 'done'
    yield ('line', 'w-before-wait')
    yield from Z.co(ev.wait)
  return 'gave-up'


def _updater(obj, log, n):
  for _ in range(n):
    yield ('line', 'u-change')
    obj.version += 1
    log.append(('notify-start', Z.SCHED[0].current().name))
    yield from Z.co(obj.notify_update)
    log.append(('notify-end',))


def _check(log, sched, watchers_done):
  # (1) a notification issued after the snapshot was taken sets the event
  notifies = [i for i, e in enumerate(log) if e[0] == 'notify-start']
  for i, e in enumerate(log):
    if e[0] == 'watch':
      snap_idx = max(j for j in range(i) if log[j][0] == 'snap-taken' and log[j][1] == e[1])
      later = [n for n in notifies if n > snap_idx]
      # only notifications that ran to completion are required to have set it
      done_later = [n for n in later if any(log[k][0] == 'notify-end' for k in range(n, len(log)))]
      if done_later and not e[3].is_set():
        return False
  return True


def _run(nw, nu, updates, preempt, pick):
  log = []
  s = Z.Sched(preempt=preempt, pick=pick, max_steps=300)
  obj = Obj(log)
  final = nu * updates
  ws = [s.spawn('w%d' % i, _watcher(obj, log, 'w%d' % i, final, 3)) for i in range(nw)]
  us = [s.spawn('u%d' % i, _updater(obj, log, updates)) for i in range(nu)]
  try:
    s.run()
  except Z.Deadlock:
    return False            # a watcher is left blocked forever
  reach()
  for w in ws:
    if w.exc is not None or w.result != 'done':
      return False          # a watcher looping snapshot/wait always observes the final state
  for u in us:
    if u.exc is not None:
      return False
  return _check(log, s, ws)


@cond(timeout=900, split={'t0': range(2)})
def c_one_watcher_one_updater(p0: int, t0: int, p1: int, t1: int, k0: int) -> bool:
  """
  pre: 0 <= p0 <= 30 and 0 <= t0 <= 1 and p0 <= p1 <= 30 and 0 <= t1 <= 1
  pre: 0 <= k0 <= 1
  post: _
  """
  return _run(1, 1, 2, [(p0, t0), (p1, t1)], [k0, 0, 0, 0])


@cond(timeout=900, split={'t0': range(3)})
def c_two_watchers_one_updater(p0: int, t0: int, k0: int, k1: int) -> bool:
  """
  pre: 0 <= p0 <= 36 and 0 <= t0 <= 2
  pre: 0 <= k0 <= 2 and 0 <= k1 <= 2
  post: _
  """
  # one notification wakes every watcher registered before it (quick: one preemption + two thread picks)
  return _run(2, 1, 1, [(p0, t0)], [k0, k1, 0, 0])


@cond(tiers=('thorough',), timeout=3600, split={'t0': range(3), 't1': range(3)})
def c_two_watchers_one_updater_k2(p0: int, t0: int, p1: int, t1: int, k0: int, k1: int) -> bool:
  """
  pre: 0 <= p0 <= 36 and 0 <= t0 <= 2 and p0 <= p1 <= 36 and 0 <= t1 <= 2
  pre: 0 <= k0 <= 2 and 0 <= k1 <= 2
  post: _
  """
  # schedule ints pinned by bisection, the run itself executes natively (DESIGN 8.1 (v))
  return untraced(_run, 2, 1, 1, [(pin(p0, 0, 36), pin(t0, 0, 2)), (pin(p1, 0, 36), pin(t1, 0, 2))], [pin(k0, 0, 2), pin(k1, 0, 2), 0, 0])


@cond(tiers=('thorough',), timeout=3600, split={'t0': range(4), 't1': range(4)})
def c_two_by_two(p0: int, t0: int, p1: int, t1: int, k0: int, k1: int) -> bool:
  """
  pre: 0 <= p0 <= 60 and p0 <= p1 <= 60
  pre: 0 <= t0 <= 3 and 0 <= t1 <= 3
  pre: 0 <= k0 <= 3 and 0 <= k1 <= 3
  post: _
  """
  # two watchers x two updaters, two preemptions + two thread picks
  return untraced(_run, 2, 2, 1, [(pin(p0, 0, 60), pin(t0, 0, 3)), (pin(p1, 0, 60), pin(t1, 0, 3))], [pin(k0, 0, 3), pin(k1, 0, 3), 0, 0])


@cond(tiers=('thorough',), timeout=3600, split={'t0': range(3), 't1': range(3), 't2': range(3)})
def c_two_watchers_one_updater_k3(p0: int, t0: int, p1: int, t1: int, p2: int, t2: int) -> bool:
  """
  pre: 0 <= p0 <= 36 and p0 <= p1 <= 36 and p1 <= p2 <= 36
  pre: 0 <= t0 <= 2 and 0 <= t1 <= 2 and 0 <= t2 <= 2
  post: _
  """
  return untraced(_run, 2, 1, 1, [(pin(p0, 0, 36), pin(t0, 0, 2)), (pin(p1, 0, 36), pin(t1, 0, 2)), (pin(p2, 0, 36), pin(t2, 0, 2))], [0, 0, 0, 0])


@cond(timeout=120, expect='refute')
def w_update_lands_in_window(p0: int, t0: int) -> bool:
  """
  pre: 0 <= p0 <= 40 and 0 <= t0 <= 1
  post: _
  """
  # witness: a schedule in which the update is notified between the watcher's snapshot and its wait
  log = []
  s = Z.Sched(preempt=[(p0, t0)], max_steps=300)
  obj = Obj(log)
  w = s.spawn('w0', _watcher(obj, log, 'w0', 1, 3))
  u = s.spawn('u0', _updater(obj, log, 1))
  s.run()
  watches = [e for e in log if e[0] == 'watch']
  return not (len(watches) == 2 and watches[0][2] == 0 and watches[0][3].is_set() and w.result == 'done')


# ---- frontend-aware plug: PlugManager.wait_for_plug_update -------------------------

class _Plug(base_plugs.FrontendAwareBasePlug):
  def __init__(self, log):
    self._lock = prims.Lock()
    self._update_events = set()
    self.number = 0
    self.log = log

  def _asdict(self):
    return {'number': self.number}


def _plug_waiter(pm, out):
  r = yield from Z.co(pm.wait_for_plug_update, 'p', {'number': 0}, 5)
  out.append(r)


def _plug_updater(plug):
  yield ('line', 'pu-change')
  plug.number = 1
  yield from Z.co(plug.notify_update)


@cond(timeout=600)
def c_wait_for_plug_update(p0: int, t0: int, p1: int, t1: int, k0: int) -> bool:
  """
  pre: 0 <= p0 <= 30 and 0 <= t0 <= 1 and p0 <= p1 <= 30 and 0 <= t1 <= 1
  pre: 0 <= k0 <= 1
  post: _
  """
  log, out = [], []
  s = Z.Sched(preempt=[(p0, t0), (p1, t1)], pick=[k0], max_steps=200)
  plug = _Plug(log)
  pm = object.__new__(plugs_mod.PlugManager)
  pm._plugs_by_name = {'p': plug}
  w = s.spawn('waiter', _plug_waiter(pm, out))
  u = s.spawn('updater', _plug_updater(plug))
  try:
    s.run()
  except Z.Deadlock:
    return False
  reach()
  # the long-poll returns the new state at once, never after its timeout (virtual time stays 0)
  return w.exc is None and u.exc is None and out == [{'number': 1}] and s.now < 5
