"""C03 (abort part) - every teardown node of an entered group runs exactly once under a single
operator abort arriving at any moment.

E3, shared with C04: the sequentialised real executor / phase executor / phase thread of props/C04.py
run programs P1 (group with setup, two main and two teardown phases, a following phase) and P2 (a group
whose teardown contains another group) while one abort() arrives at a symbolic step with one more
symbolic preemption.  Only C03's clause (plus termination) is judged here.
"""
import vlib.env  # noqa: F401
from vlib.cond import cond, pin, untraced
import props.C04 as A

PROPERTY = 'C03'
LEVEL = 'model_checking'
FUNCTIONS = A.FUNCTIONS
BOUNDS = {'abort programs': A.BOUNDS['programs'], 'abort moment': 'every global step 0..335 of the run, plus one more preemption (executor <-> aborting thread) 0..25 steps later; '
          'main phase prompt (quick) / prompt, killable, stubborn x teardown phases likewise (thorough)'}
STUBS = A.STUBS
OUTSIDE = ['abort arriving in group shapes other than P1/P2 (the program part covers the shapes; the abort part covers the moments)']


@cond(timeout=1500, split={'prog': (1, 2), 'di': (0,), 'pb': range(6)},
      split_thorough={'prog': (1, 2), 'di': range(9), 'pb': range(6)}, timeout_thorough=3000)
def c_teardown_under_single_abort(prog: int, pb: int, pa: int, di: int, k1: int, t1: int) -> bool:
  """
  pre: 1 <= prog <= 2 and 0 <= pb <= 5 and 0 <= di <= 8
  pre: 0 <= pa < 56
  pre: 0 <= k1 <= 25 and 0 <= t1 <= 1
  post: _
  """
  prog, pb, pa, di, k1, t1 = pin(prog, 1, 2), pin(pb, 0, 5), pin(pa, 0, 55), pin(di, 0, 8), pin(k1, 0, 25), pin(t1, 0, 1)
  dm, dt = A._DT[di]
  pa = pb * 56 + pa
  return untraced(A.teardown_under_single_abort, prog, pa, dm, dt, pa + k1, t1)
