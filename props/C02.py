"""C02 - node execution follows docs/event_sequence.md exactly (order, skips, branches).

E1: the real TestExecutor (threads made synchronous) runs each tree of family T
with a symbolic per-invocation script; the call log and the phase / subtest /
branch / checkpoint records must equal those of the specification interpreter
(vlib/spec_events.py) for every script.
"""
import vlib.env  # noqa: F401
from vlib.cond import cond
from vlib import stubs
from vlib import exe_harness as H

stubs.install_fmtshim(objects_opaque=True)
H.install_sync_threads()
H.quiet()
H.skip_base_type_caches()

from vlib import treecheck as TC
from vlib import trees as T
from vlib import spec_events as SE
from openhtf.core import test_executor as TE
from openhtf.core import phase_executor as PE
from openhtf.core import phase_branches as PB

PROPERTY = 'C02'
LEVEL = 'other'
STUBS = H.STUBS + ['fmtshim', 'PhaseRecord.as_base_types returns {} (base-type cache is not observed here; it is C10 subject)']
NQ = len(T.QUICK)
NA = len(T.ALL)


def FUNCTIONS():
  X = TE.TestExecutor
  return [X._thread_proc, X._execute_node, X._execute_sequence, X._execute_abortable_sequence, X._execute_teardown_sequence,
          X._execute_subtest, X._execute_phase_branch, X._execute_phase_group, X._execute_phase, X._execute_checkpoint,
          TE._more_critical, PE.PhaseExecutor.execute_phase, PE.PhaseExecutor.skip_phase, PE.PhaseExecutor.evaluate_checkpoint,
          PE.PhaseExecutor.skip_checkpoint, PB.DiagnosisCondition.check, PB.PhaseFailureCheckpoint._check_for_action,
          PB.DiagnosisCheckpoint._check_for_action, PB.Checkpoint.get_result]


BOUNDS = {'trees': 'family T: %d covering trees (quick) / %d trees (thorough), <= 5 phases, nesting depth <= 3; shapes are enumerated, not symbolic (a tree is a Python object graph)' % (NQ, NA),
          'script': 'quick: any two phases deviate from the nominal behaviour with any of 11 behaviours each (symbolic positions and kinds), later invocations None/REPEAT, one measurement fails or is left unset (symbolic position), diagnoser codes (none/A/B/failure/raises), stop_on_first_failure; thorough adds: every phase free over 8 behaviours',
          'trees_list': [repr(t)[:200] for t in T.ALL]}
ASSUMPTIONS = ['the executor is a structural recursion over the tree (composition argument on paper): T contains every node kind as a child of every collection kind']
OUTSIDE = ['trees deeper or wider than T', 'the "unboundedly by seeded sampling" part of the quantifier (sampling is another technique)',
           'where the document is silent (checkpoint with no previous phase record: ERROR today) the spec mirrors the observed behaviour and says so']


KINDS = TC.KINDS
BEH = tuple(k[0] for k in KINDS)


def _run2(ti, i1, v1, i2, v2, rb, g0, g1, soff, au, check):
  """At most two phases deviate from the nominal behaviour (return None, measurement passes)."""
  def kind(k):
    if k == i1:
      return KINDS[v1]
    if k == i2:
      return KINDS[v2]
    return KINDS[0]
  bs = [(lambda k=k: kind(k)[0]) for k in range(5)]
  mks = [(lambda k=k: kind(k)[1]) for k in range(5)]
  r = TC.run_tree_lazy(ti, bs, (0, 3)[rb], mks, [g0, g1, 0, 0, 0], soff, au)
  return check(r, au)


@cond(timeout=1200, split={'ti': range(NQ), 'i1': range(5), 'wide': (False,)},
      split_thorough={'ti': range(NA), 'i1': range(5), 'v1': range(13), 'wide': (True,)}, timeout_thorough=5400)
def c_tree_two_deviations(ti: int, i1: int, v1: int, i2: int, v2: int, rb: int, g0: int, g1: int, soff: bool, wide: bool) -> bool:
  """
  pre: 0 <= ti < NA
  pre: 0 <= i1 <= 4 and i1 <= i2 <= 4
  pre: 0 <= v1 <= 12 and 0 <= v2 <= 12
  pre: wide or (v1 <= 6 and v2 <= 6)
  pre: 0 <= rb <= 1
  pre: 0 <= g0 <= 4 and 0 <= g1 <= 4
  post: _
  """
  return _run2(ti, i1, v1, i2, v2, rb, g0, g1, soff, False, lambda r, au: TC.same_execution(r))


_AF_TREES = (1, 3, 5, 9, 12, 13)


@cond(tiers=('thorough',), timeout=3600, split={'ti': _AF_TREES, 'b0': range(5), 'b1': range(5)})
def c_tree_all_free(ti: int, b0: int, b1: int, b2: int, b3: int, b4: int, rb: int, fm: int, g0: int, g1: int, soff: bool) -> bool:
  """
  pre: ti in _AF_TREES
  pre: 0 <= b0 <= 4 and 0 <= b1 <= 4 and 0 <= b2 <= 4 and 0 <= b3 <= 4 and 0 <= b4 <= 4
  pre: rb == 0 and fm == -1
  pre: 0 <= g0 <= 2 and g1 == 0
  post: _
  """
  # every phase of the tree free over {None, FAIL_AND_CONTINUE, SKIP, FAIL_SUBTEST, STOP} at once (sized to ~20 min;
  # REPEAT/exception/timeout kinds, measurement failures and the second diagnoser are covered pairwise by c_tree_two_deviations)
  bs = [(lambda b=b: BEH[b]) for b in (b0, b1, b2, b3, b4)]
  mks = [(lambda k=k: (1 if fm == k else 0)) for k in range(5)]
  r = TC.run_tree_lazy(ti, bs, (0, 3)[rb], mks, [g0, g1, 0, 0, 0], soff, False)
  return TC.same_execution(r)


@cond(timeout=300, expect='refute')
def w_tree_subtest_skip(b0: int, b1: int, b2: int) -> bool:
  """
  pre: 0 <= b0 <= 10 and 0 <= b1 <= 10 and 0 <= b2 <= 10
  post: _
  """
  # witness on tree 2 (subtest s[p0,p1], then p2): p0 fails the subtest, p1 is recorded SKIP, p2 still runs
  r = TC.run_tree(2, [b0, b1, b2, 0, 0], 0, [0, 0, 0, 0, 0], [0, 0, 0, 0, 0], False, False)
  ph = [(p.name, p.outcome.name) for p in r.rec.phases]
  return not (TC.same_execution(r) and ph == [('p0', 'FAIL'), ('p1', 'SKIP'), ('p2', 'PASS')])
