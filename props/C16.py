"""C16 - fastboot: command/response state machine and exact image transfer.

E1 over the real FastbootProtocol / FastbootCommands against a scripted fake
bootloader; device responses are fully symbolic strings, so "any other
header", short and empty packets are the solver's choice.
"""
import io

import vlib.env  # noqa: F401
from vlib.cond import cond, reach
from vlib import stubs, usbstub

stubs.install_fmtshim(objects_opaque=True)

F = usbstub.load_usb('fastboot_protocol')
X = usbstub.load_usb('usb_exceptions')

PROPERTY = 'C16'
LEVEL = 'other'
CHUNK_KB = 1
F.FASTBOOT_DOWNLOAD_CHUNK_SIZE_KB = CHUNK_KB      # "configured chunk size" (the module's own flag variable)
C = CHUNK_KB * 1024


def FUNCTIONS():
  P, K = F.FastbootProtocol, F.FastbootCommands
  return [P.send_command, P.handle_simple_responses, P.handle_data_sending, P._accept_responses,
          P._handle_progress, P._write, K._simple_command, K.download, K.flash, K.erase, K.get_var,
          K.oem, K.reboot, K.continue_, K.reboot_bootloader, K.flash_from_file]


BOUNDS = {'responses': '<= 3 device packets per command, each a fully symbolic str of length <= 6 (plus the empty read after the script ends)',
          'commands/args': 'finite list of concrete command and argument strings (formatting is the subject, so they are not symbolic)',
          'DATA packets': 'carry a well-formed 8-hex-digit size field (a malformed DATA packet raises binascii/struct errors: observation, outside the claim)',
          'image sizes': '{0, 1, c-1, c, c+1, 2c, 2c+1} for configured chunk size c = 1 KiB; DATA size field in {size, size+1, size-1, 0}',
          'image content': 'concrete pattern (i*7+3) % 251; the transfer code never inspects content',
          'progress callback': 'raises on a symbolic subset of its first 3 calls',
          'flash_from_file': 'image sizes {1, c, c+1}; after the DATA reply 3 fully symbolic packets (len <= 6) shared by the download tail and the flash command; source_len given or taken from a stubbed os.stat'}
STUBS = ['FakeUsb: scripted reads / recorded writes', 'fmtshim (error message texts with symbolic device text are not checked; the "carrying the device text" clause is checked on concrete texts)']
ASSUMPTIONS = ['the device answers with str packets (Python-3 str transport as in the module)', 'after the scripted responses the device is silent (read returns the empty packet)']
OUTSIDE = ['images >= 4 GiB (9 hex digits)', 'FastbootDevice retry wrapper', 'real files (download(filename) opening a path; os.stat is stubbed in c_flash_from_file)']


class FakeUsb:
  def __init__(self, responses):
    self.responses = list(responses)
    self.writes = []
    self.events = []

  def read(self, n, timeout_ms=None):
    self.events.append('r')
    if self.responses:
      return self.responses.pop(0)
    return ''

  def write(self, data, timeout_ms=None):
    self.writes.append(data)
    self.events.append('w')
    return len(data)

  def close(self):
    pass


def _spec_accept(resps, expected):
  """Specification automaton.  Returns (kind, payload, infos): kind in
  ok/fail/mismatch/invalid; infos = texts forwarded to the callback in order."""
  return _spec_accept_n(resps, expected)[:3]


def _spec_accept_n(resps, expected):
  infos = []
  n = 0
  for r in list(resps) + ['']:
    n += 1
    h, rem = r[:4], r[4:]
    if h == 'INFO':
      infos.append(('INFO', rem))
    elif h == 'OKAY' or h == 'DATA':
      if h != expected:
        return ('mismatch', None, infos, n)
      if h == 'OKAY':
        infos.append(('OKAY', rem))
      return ('ok', rem, infos, n)
    elif h == 'FAIL':
      infos.append(('FAIL', rem))
      return ('fail', rem, infos, n)
    else:
      return ('invalid', None, infos, n)
  return ('invalid', None, infos, n)


def _run(fn):
  try:
    return ('ok', fn())
  except X.FastbootRemoteFailureError as e:
    return ('fail', e)
  except X.FastbootStateMismatchError as e:
    return ('mismatch', e)
  except X.FastbootInvalidResponseError as e:
    return ('invalid', e)
  except X.FastbootTransferError as e:
    return ('transfer', e)
  except Exception as e:     # anything else is not a documented outcome
    return ('other:' + type(e).__name__, e)


_CMDS = (('getvar', 'version'), ('erase', 'boot'), ('flash', 'system'), ('reboot', None), ('reboot', 'recovery'),
         ('continue', None), ('reboot-bootloader', None), ('oem', 'poweroff'))


def _do_cmd(cmds, ci, cb):
  name, arg = _CMDS[ci]
  if name == 'getvar':
    return cmds.get_var(arg, info_cb=cb), 'getvar:' + arg
  if name == 'erase':
    r = cmds.erase(arg)
    return r, 'erase:' + arg
  if name == 'flash':
    return cmds.flash(arg, info_cb=cb), 'flash:' + arg
  if name == 'reboot':
    return cmds.reboot(arg), 'reboot' + (':' + arg if arg else '')
  if name == 'continue':
    return cmds.continue_(), 'continue'
  if name == 'reboot-bootloader':
    return cmds.reboot_bootloader(), 'reboot-bootloader'
  return cmds.oem(arg, info_cb=cb), 'oem ' + arg


@cond(timeout=900, split={'n': range(1, 4)})
def c_simple_state_machine(n: int, r0: str, r1: str, r2: str) -> bool:
  """
  pre: 1 <= n <= 3
  pre: len(r0) <= 6 and len(r1) <= 6 and len(r2) <= 6
  post: _
  """
  resps = [r0, r1, r2][:n]
  usb = FakeUsb(resps)
  got = []
  proto = F.FastbootProtocol(usb)
  kind, val = _run(lambda: proto.handle_simple_responses(info_cb=lambda m: got.append((m.header, m.message))))
  skind, spay, sinfos = _spec_accept(resps, 'OKAY')
  reach()
  if kind != skind:
    return False
  if kind == 'ok' and val != spay:
    return False
  if len(got) != len(sinfos):
    return False
  for a, b in zip(got, sinfos):
    if a[0] != b[0] or a[1] != b[1]:
      return False
  return len(usb.writes) == 0


@cond(timeout=120, expect='refute')
def w_simple_state_machine(r0: str, r1: str) -> bool:
  """
  pre: len(r0) <= 6 and len(r1) <= 6
  post: _
  """
  usb = FakeUsb([r0, r1])
  got = []
  kind, val = _run(lambda: F.FastbootProtocol(usb).handle_simple_responses(info_cb=lambda m: got.append(m.message)))
  return not (kind == 'ok' and len(got) == 2 and val == 'xy' and got[0] == 'a')


@cond(timeout=600, split={'ci': range(len(_CMDS))})
def c_command_packet(ci: int, r0: str, r1: str) -> bool:
  """
  pre: 0 <= ci < 8
  pre: len(r0) <= 6 and len(r1) <= 6
  post: _
  """
  usb = FakeUsb([r0, r1])
  cmds = F.FastbootCommands(usb)
  got = []
  exp_pkt = [None]

  def go():
    r, pkt = _do_cmd(cmds, ci, lambda m: got.append(m.header))
    return r
  name, arg = _CMDS[ci]
  exp = name + (':' + arg if (arg is not None and name != 'oem') else '') if name != 'oem' else 'oem ' + arg
  kind, val = _run(go)
  skind, spay, sinfos = _spec_accept([r0, r1], 'OKAY')
  reach()
  # exactly one packet "command[:arg]" was sent, before the first read
  if usb.writes != [exp] or usb.events[0] != 'w':
    return False
  if kind != skind:
    return False
  if kind == 'ok' and name not in ('erase',) and val != spay:
    return False
  return True


_TEXTS = ('', 'not allowed', 'x')


@cond(timeout=300)
def c_fail_carries_text(ti: int, pre_info: bool) -> bool:
  """
  pre: 0 <= ti < 3
  post: _
  """
  text = _TEXTS[ti]
  resps = (['INFOhello'] if pre_info else []) + ['FAIL' + text]
  usb = FakeUsb(resps)
  got = []
  kind, val = _run(lambda: F.FastbootCommands(usb).get_var('v', info_cb=lambda m: got.append((m.header, m.message))))
  reach()
  return kind == 'fail' and text in str(val) and got[-1] == ('FAIL', text) and (not pre_info or got[0] == ('INFO', 'hello'))


_SIZES = (0, 1, C - 1, C, C + 1, 2 * C, 2 * C + 1)


def _image(n):
  return ''.join(chr(33 + (i * 7 + 3) % 90) for i in range(n))


def _hex8(n):
  return '%08x' % n


@cond(timeout=900, split={'si': range(len(_SIZES))})
def c_download(si: int, dk: int, pre: str, post: str, use_len: bool, cb_on: bool, boom0: bool, boom1: bool, boom2: bool) -> bool:
  """
  pre: 0 <= si < 7
  pre: 0 <= dk <= 3
  pre: len(pre) <= 6 and len(post) <= 6
  pre: pre[:4] != 'DATA'
  post: _
  """
  size = _SIZES[si]
  img = _image(size)
  if dk == 0:
    dsize = size
  elif dk == 1:
    dsize = size + 1
  elif dk == 2:
    dsize = size - 1 if size > 0 else 5
  else:
    dsize = 0 if size != 0 else 7     # concrete ints: '%08x' must not see a symbolic value
  # device script: an arbitrary packet, then DATA<hex>, then an arbitrary packet
  resps = [pre, 'DATA' + _hex8(dsize), post]
  usb = FakeUsb(resps)
  prog = []
  booms = [boom0, boom1, boom2]

  def pcb(cur, tot):
    prog.append((cur, tot))
    if len(prog) <= 3 and booms[len(prog) - 1]:
      raise RuntimeError('progress callback failure')
  infos = []
  cmds = F.FastbootCommands(usb)
  kind, val = _run(lambda: cmds.download(io.StringIO(img), source_len=(size if use_len else 0),
                                         info_cb=lambda m: infos.append(m.header),
                                         progress_callback=(pcb if cb_on else None)))
  reach()
  w = usb.writes
  # announcement: "download:" + 8 hex digits of the image size, one packet, first
  if not w or w[0] != 'download:' + _hex8(size) or usb.events[0] != 'w':
    return False
  body = w[1:]
  k1, p1, i1, n1 = _spec_accept_n(resps, 'DATA')
  if k1 != 'ok':
    # the device did not answer DATA (FAIL / OKAY out of place / garbage): error and no image bytes
    return kind == k1 and body == []
  if dsize != size:
    return kind == 'transfer' and body == []
  # image bytes only after DATA with exactly the size: exactly the image, in order, chunks <= c
  if ''.join(body) != img:
    return False
  for ch in body:
    if len(ch) > C or len(ch) == 0:
      return False
  if cb_on:
    cum = 0
    exp = []
    for ch in body:
      cum += len(ch)
      exp.append((cum, size))
    if prog != exp:       # cumulative progress, one report per chunk, unaffected by raising callbacks
      return False
  # final response handling after the data phase
  k2, p2, i2, n2 = _spec_accept_n(resps[n1:], 'OKAY')
  if kind != k2:
    return False
  return kind != 'ok' or val == p2


@cond(timeout=120, expect='refute')
def w_download(pre: str, post: str) -> bool:
  """
  pre: len(pre) <= 6 and len(post) <= 6
  post: _
  """
  size = C + 1
  usb = FakeUsb([pre, 'DATA' + _hex8(size), post])
  kind, val = _run(lambda: F.FastbootCommands(usb).download(io.StringIO(_image(size)), source_len=size, info_cb=lambda m: None))
  return not (kind == 'ok' and len(usb.writes) == 3 and val == 'ok' and pre[:4] == 'INFO')


@cond(timeout=600, split={'si': (1, 3, 4)})
def c_flash_from_file(si: int, r1: str, r2: str, r3: str, use_len: bool) -> bool:
  """
  pre: si == 1 or si == 3 or si == 4
  pre: len(r1) <= 6 and len(r2) <= 6 and len(r3) <= 6
  post: _
  """
  # Two-command sequence of the public API: download (announce, DATA, image, r1 r2 ...) and then flash:<partition>.
  size = _SIZES[si]
  img = _image(size)
  resps = ['DATA' + _hex8(size), r1, r2, r3]
  usb = FakeUsb(resps)
  infos = []
  cmds = F.FastbootCommands(usb)
  _orig_os = F.os
  if not use_len:      # source_len=0 falls back to os.stat(source_file): module-local stub, the real os is untouched
    F.os = type('OsStub', (), {'stat': staticmethod(lambda f: type('S', (), {'st_size': size})())})
  try:
    kind, val = _run(lambda: cmds.flash_from_file('boot', io.StringIO(img), source_len=(size if use_len else 0),
                                                  info_cb=lambda m: infos.append((m.header, m.message))))
  finally:
    F.os = _orig_os
  reach()
  w = usb.writes
  if not w or w[0] != 'download:' + _hex8(size) or usb.events[0] != 'w':
    return False
  nchunks = (size + C - 1) // C
  if ''.join(w[1:1 + nchunks]) != img:
    return False
  rest = w[1 + nchunks:]
  # the download ends with the first terminating packet after the image
  k1, p1, i1, n1 = _spec_accept_n(resps[1:], 'OKAY')
  if k1 != 'ok':
    # download failed: its error surfaces and no flash command is sent
    return kind == k1 and rest == [] and infos == i1
  # exactly one flash command, a single packet, sent only after the download's OKAY was read
  if rest != ['flash:boot']:
    return False
  if usb.events.index('w', 0) != 0 or usb.events.count('w') != 2 + nchunks:
    return False
  k2, p2, i2, n2 = _spec_accept_n(resps[1 + n1:], 'OKAY')
  if kind != k2 or infos != i1 + i2:
    return False
  return kind != 'ok' or val == p1 + p2


@cond(timeout=120, expect='refute')
def w_flash_from_file(r1: str, r2: str) -> bool:
  """
  pre: len(r1) <= 6 and len(r2) <= 6
  post: _
  """
  size = C + 1
  usb = FakeUsb(['DATA' + _hex8(size), r1, r2])
  kind, val = _run(lambda: F.FastbootCommands(usb).flash_from_file('boot', io.StringIO(_image(size)), source_len=size,
                                                                   info_cb=lambda m: None))
  return not (kind == 'ok' and usb.writes[-1] == 'flash:boot' and val == 'ab' and r1 == 'OKAYa')
