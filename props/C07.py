"""C07 - built-in validators accept exactly the values inside the declared limits.

E1 conditions (CrossHair over the real validator classes) + E2 conditions
(direct z3 queries: IEEE-754 lemmas for WithinPercent translated from the live
AST, regex language queries for equals(str)/matches_regex).
"""
import copy
import math
from typing import List, Tuple

import vlib.env  # noqa: F401  (path + argv bootstrap)
from vlib.cond import cond, reach
from vlib import stubs

stubs.install_fmtshim()

from openhtf.util import validators as V

PROPERTY = 'C07'
LEVEL = 'other'


def FUNCTIONS():
  return [V.InRange.__init__, V.InRange.__call__, V.InRange.is_marginal, V.InRange.with_args,
          V.InRange.__eq__, V.InRange.__str__,
          V.AllInRangeValidator.__init__, V.AllInRangeValidator.__call__,
          V.AllInRangeValidator.is_marginal, V.equals, V.all_equals, V.Equals.__call__,
          V.AllEqualsValidator.__call__, V.RegexMatcher.__call__, V.matches_regex,
          V.WithinPercent.__init__, V.WithinPercent.__call__, V.WithinPercent.is_marginal,
          V.DimensionPivot.__call__, V.ConsistentEndDimensionPivot.__call__]


BOUNDS = {
    'ints': 'unbounded mathematical integers (z3 Int)',
    'floats(E1)': 'bit-precise IEEE-754 binary64 (CrossHair PreciseIeeeSymbolicFloat -> z3 FP theory); all values incl. NaN, +-inf, +-0, subnormals',
    'floats(E2)': 'IEEE-754 binary64 bit-precise (z3 FP theory), percent from a finite list',
    'lists': 'AllInRange / pivot validators: up to 3 elements',
    'numeric-string limits': "finite list ('0','1','5','-3','10', '007')",
    'regex literals': 'generated literals of length <= 3 over an alphabet containing every regex special class',
}
STUBS = ['fmtshim: str.format/%-format with a symbolic argument returns a constant (message texts with symbolic limits are not checked; str() equality is checked on concrete limits)']
ASSUMPTIONS = [
    'limits are not NaN (the statement does not define NaN limits)',
    'probe values are int/float/None; custom numeric types are outside the claim',
]
OUTSIDE = [
    'ints too large for float() in WithinPercent (OverflowError)',
    'validators registered by users',
    'WithinPercent with marginal_percent == 0 (is_marginal raises TypeError; observation D7, excluded by precondition)',
]


def _concrete(x, dom):
  """Returns the concrete member of dom equal to (possibly symbolic) x."""
  for c in dom:
    if x == c:
      return c
  raise AssertionError('outside domain')


def _spec_accept(has_lo, has_hi, lo, hi, v):
  return (not has_lo or lo <= v) and (not has_hi or v <= hi)


def _spec_inconsistent(has_lo, has_hi, has_mlo, has_mhi, lo, hi, mlo, mhi):
  if not has_lo and not has_hi:
    return True
  if has_lo and has_hi and lo > hi:
    return True
  if has_mlo and not has_lo:
    return True
  if has_mhi and not has_hi:
    return True
  if has_mlo and lo > mlo:
    return True
  if has_mhi and hi < mhi:
    return True
  if has_mlo and has_mhi and mlo > mhi:
    return True
  return False


def _spec_marginal(has_lo, has_hi, has_mlo, has_mhi, lo, hi, mlo, mhi, v):
  return bool((has_mlo and lo <= v <= mlo) or (has_mhi and mhi <= v <= hi))


# ---------------------------------------------------------------- InRange ----

@cond(timeout=120)
def c_inrange_int_accept(has_lo: bool, has_hi: bool, lo: int, hi: int, v: int) -> bool:
  """
  pre: has_lo or has_hi
  pre: (not (has_lo and has_hi)) or lo <= hi
  post: _
  """
  val = V.InRange(lo if has_lo else None, hi if has_hi else None)
  got = val(v)
  reach()
  return got == _spec_accept(has_lo, has_hi, lo, hi, v)


@cond(timeout=60, expect='refute')
def w_inrange_int_accept(has_lo: bool, has_hi: bool, lo: int, hi: int, v: int) -> bool:
  """
  pre: has_lo and has_hi and lo < hi
  post: _
  """
  val = V.InRange(lo, hi)
  # witness: a value exactly on the upper bound is accepted (reaches the oracle branch).
  return not (val(v) and v == hi)


@cond(timeout=240)
def c_inrange_float_accept(has_lo: bool, has_hi: bool, lo: float, hi: float, v: float) -> bool:
  """
  pre: has_lo or has_hi
  pre: not (lo != lo) and not (hi != hi)
  pre: (not (has_lo and has_hi)) or lo <= hi
  post: _
  """
  val = V.InRange(lo if has_lo else None, hi if has_hi else None)
  got = val(v)
  reach()
  if v != v:   # NaN never passes a numeric range
    return got is False
  return got == _spec_accept(has_lo, has_hi, lo, hi, v)


@cond(timeout=60, expect='refute')
def w_inrange_float_nan(lo: float, hi: float, v: float) -> bool:
  """
  pre: lo <= hi
  post: _
  """
  val = V.InRange(lo, hi)
  return not (v != v and val(v) is False)


@cond(timeout=60)
def c_inrange_none(has_lo: bool, has_hi: bool, lo: int, hi: int) -> bool:
  """
  pre: has_lo or has_hi
  pre: (not (has_lo and has_hi)) or lo <= hi
  post: _
  """
  val = V.InRange(lo if has_lo else None, hi if has_hi else None)
  reach()
  return val(None) is False and val.is_marginal(None) is False


@cond(timeout=240)
def c_inrange_ctor_iff(has_lo: bool, has_hi: bool, has_mlo: bool, has_mhi: bool,
                       lo: int, hi: int, mlo: int, mhi: int) -> bool:
  """
  post: _
  """
  try:
    V.InRange(lo if has_lo else None, hi if has_hi else None,
              mlo if has_mlo else None, mhi if has_mhi else None)
    raised = False
  except ValueError:
    raised = True
  reach()
  return raised == _spec_inconsistent(has_lo, has_hi, has_mlo, has_mhi, lo, hi, mlo, mhi)


@cond(timeout=60, expect='refute')
def w_inrange_ctor_iff(lo: int, hi: int, mlo: int, mhi: int) -> bool:
  """
  post: _
  """
  try:
    V.InRange(lo, hi, mlo, mhi)
  except ValueError:
    return True
  return not (lo < mlo < mhi < hi)   # witness: a consistent full limit tuple exists


@cond(timeout=300)
def c_inrange_marginal_int(has_lo: bool, has_hi: bool, has_mlo: bool, has_mhi: bool,
                           lo: int, hi: int, mlo: int, mhi: int, v: int) -> bool:
  """
  pre: not _spec_inconsistent(has_lo, has_hi, has_mlo, has_mhi, lo, hi, mlo, mhi)
  post: _
  """
  val = V.InRange(lo if has_lo else None, hi if has_hi else None,
                  mlo if has_mlo else None, mhi if has_mhi else None)
  passing = val(v)
  marg = val.is_marginal(v)
  reach()
  if not passing:
    return True   # the statement constrains passing values only
  return marg == _spec_marginal(has_lo, has_hi, has_mlo, has_mhi, lo, hi, mlo, mhi, v)


@cond(timeout=60, expect='refute')
def w_inrange_marginal_int(lo: int, hi: int, mlo: int, mhi: int, v: int) -> bool:
  """
  pre: lo <= mlo <= mhi <= hi
  post: _
  """
  val = V.InRange(lo, hi, mlo, mhi)
  return not (val(v) and val.is_marginal(v) and v == mhi and mhi < hi)


@cond(timeout=300)
def c_inrange_marginal_float(lo: float, hi: float, mlo: float, mhi: float, v: float) -> bool:
  """
  pre: lo == lo and hi == hi and mlo == mlo and mhi == mhi
  pre: lo <= mlo <= mhi <= hi
  post: _
  """
  val = V.InRange(lo, hi, mlo, mhi)
  passing = val(v)
  marg = val.is_marginal(v)
  reach()
  if v != v:
    return passing is False and marg is False
  if not passing:
    return True
  return marg == bool(lo <= v <= mlo or mhi <= v <= hi)


_NUMSTR = ('0', '1', '5', '-3', '10', '007')


@cond(timeout=120)
def c_inrange_type_conversion(i: int, j: int, v: int) -> bool:
  """
  pre: 0 <= i < 6 and 0 <= j < 6
  post: _
  """
  lo_s, hi_s = _NUMSTR[i], _NUMSTR[j]
  val = V.InRange(lo_s, hi_s, type=int)
  reach()
  return val(v) == (int(lo_s) <= v <= int(hi_s))


@cond(timeout=120)
def c_inrange_type_marginal(i: int, v: int) -> bool:
  """
  pre: 0 <= i < 6
  post: _
  """
  # marginal limits are converted with the declared type as well
  val = V.InRange('0', '10', marginal_minimum='2', marginal_maximum='8', type=int)
  reach()
  exp = bool(0 <= v <= 10 and (v <= 2 or v >= 8))
  return (val(v) == (0 <= v <= 10)) and (val.is_marginal(v) if val(v) else False) == exp


@cond(timeout=200)
def c_inrange_copy_eq_decide(lo: int, hi: int, mlo: int, mhi: int, v: int, how: int) -> bool:
  """
  pre: lo <= mlo <= mhi <= hi
  pre: 0 <= how <= 1
  post: _
  """
  a = V.InRange(lo, hi, mlo, mhi)
  if how == 0:
    b = copy.deepcopy(a)
  else:
    b = V.InRange(lo, hi, mlo, mhi)
  reach()
  return (a == b) and not (a != b) and a(v) == b(v) and a.is_marginal(v) == b.is_marginal(v)


@cond(timeout=120)
def c_inrange_with_args_subst(lo: int, hi: int, v: int, k: int) -> bool:
  """
  pre: 0 <= lo <= 3 and 0 <= hi <= 3 and lo <= hi
  pre: 0 <= k <= 1
  post: _
  """
  # with_args substitution of limits given as format strings (concrete small
  # limits: str.format realises symbolic ints), converted with the declared type.
  lo = _concrete(lo, range(4))   # forks per value and yields concrete limits
  hi = _concrete(hi, range(4))
  t = V.InRange('{lo}', '{hi}', type=int)
  if k == 0:
    b = t.with_args(lo=lo, hi=hi)
  else:
    b = copy.deepcopy(t.with_args(lo=lo, hi=hi))
  ref = V.InRange(lo, hi)
  same = ref.with_args(unused=1)     # numeric limits are left alone by with_args
  reach()
  return (b(v) == ref(v) == (lo <= v <= hi) and same == ref and same(v) == ref(v)
          and str(b) == str(V.InRange(str(lo), str(hi), type=int)) == '%d <= x <= %d' % (lo, hi)
          if lo != hi else str(b) == 'x == %d' % lo and b(v) == (v == lo))


@cond(timeout=120)
def c_inrange_eq_differs(lo: int, hi: int, lo2: int, hi2: int) -> bool:
  """
  pre: lo <= hi and lo2 <= hi2
  post: _
  """
  a = V.InRange(lo, hi)
  b = V.InRange(lo2, hi2)
  reach()
  return (a == b) == (lo == lo2 and hi == hi2)


# ------------------------------------------------------ AllInRangeValidator ---

@cond(timeout=300)
def c_allinrange_accept(has_lo: bool, has_hi: bool, lo: int, hi: int, n: int, v0: int, v1: int, v2: int) -> bool:
  """
  pre: has_lo or has_hi
  pre: (not (has_lo and has_hi)) or lo <= hi
  pre: 0 <= n <= 3
  post: _
  """
  vals = [v0, v1, v2][:n]
  val = V.AllInRangeValidator(lo if has_lo else None, hi if has_hi else None)
  got = val(vals)
  reach()
  exp = True
  for x in vals:
    if not _spec_accept(has_lo, has_hi, lo, hi, x):
      exp = False
  return got == exp


@cond(timeout=400)
def c_allinrange_accept_float(lo: float, hi: float, n: int, v0: float, v1: float, v2: float) -> bool:
  """
  pre: lo == lo and hi == hi and lo <= hi
  pre: 0 <= n <= 3
  post: _
  """
  vals = [v0, v1, v2][:n]
  val = V.AllInRangeValidator(lo, hi)
  got = val(vals)
  reach()
  exp = True
  for x in vals:
    if x != x or not (lo <= x <= hi):   # NaN never passes a numeric range
      exp = False
  return got == exp


@cond(timeout=300)
def c_all_equals_float(a: float, v0: float, v1: float) -> bool:
  """
  pre: a == a
  post: _
  """
  reach()
  return V.all_equals(a)([v0, v1]) == (v0 == a and v1 == a)


@cond(timeout=300)
def c_allinrange_ctor_iff(has_lo: bool, has_hi: bool, has_mlo: bool, has_mhi: bool,
                          lo: int, hi: int, mlo: int, mhi: int) -> bool:
  """
  post: _
  """
  try:
    V.AllInRangeValidator(lo if has_lo else None, hi if has_hi else None,
                          mlo if has_mlo else None, mhi if has_mhi else None)
    raised = False
  except ValueError:
    raised = True
  reach()
  return raised == _spec_inconsistent(has_lo, has_hi, has_mlo, has_mhi, lo, hi, mlo, mhi)


@cond(timeout=300)
def c_allinrange_marginal(lo: int, hi: int, mlo: int, mhi: int, has_mlo: bool, has_mhi: bool,
                          n: int, v0: int, v1: int) -> bool:
  """
  pre: lo <= mlo <= mhi <= hi
  pre: 1 <= n <= 2
  pre: lo <= v0 <= hi and lo <= v1 <= hi
  post: _
  """
  vals = [v0, v1][:n]
  val = V.AllInRangeValidator(lo, hi, mlo if has_mlo else None, mhi if has_mhi else None)
  reach()
  exp = False
  for x in vals:
    if _spec_marginal(True, True, has_mlo, has_mhi, lo, hi, mlo, mhi, x):
      exp = True
  return val(vals) is True and val.is_marginal(vals) == exp


# ------------------------------------------------------------ equals family ---

@cond(timeout=120)
def c_equals_number(n: int, v: int) -> bool:
  """
  post: _
  """
  reach()
  return V.equals(n)(v) == (v == n) and V.all_equals(n)([v, n]) == (v == n)


@cond(timeout=120)
def c_equals_float(n: float, v: float) -> bool:
  """
  pre: n == n
  post: _
  """
  reach()
  got = V.equals(n)(v)
  if v != v:
    return got is False
  return got == (v == n)


@cond(timeout=120)
def c_equals_object(a: int, b: int, c: int, d: int) -> bool:
  """
  post: _
  """
  reach()
  val = V.equals((a, b))
  return isinstance(val, V.Equals) and val((c, d)) == (a == c and b == d) and \
      (val == V.Equals((c, d))) == (a == c and b == d) and V.all_equals((a, b))([(c, d)]) == (a == c and b == d)


@cond(timeout=120)
def c_equals_type_converted(i: int, v: int) -> bool:
  """
  pre: 0 <= i < 6
  post: _
  """
  reach()
  # limits are converted with the declared type before comparing
  return V.Equals(_NUMSTR[i], type=int)(v) == (v == int(_NUMSTR[i]))


# ------------------------------------------------------------ WithinPercent ---

_PCT = (0, 0.5, 1, 10, 50, 100, 150)


@cond(timeout=120)
def c_within_percent_ctor(p: int, m: int, has_m: bool, e: int) -> bool:
  """
  post: _
  """
  try:
    V.WithinPercent(e, p, m if has_m else None)
    raised = False
  except ValueError:
    raised = True
  reach()
  return raised == (p < 0 or (has_m and m >= p))


# ----------------------------------------------------------- pivot validators --

@cond(timeout=300)
def c_dimension_pivot(lo: int, hi: int, n: int, v0: int, v1: int, v2: int, c0: int) -> bool:
  """
  pre: lo <= hi
  pre: 0 <= n <= 3
  post: _
  """
  rows = [(c0, v0), (c0 + 1, v1), (c0 + 2, v2)][:n]
  sub = V.InRange(lo, hi)
  reach()
  ok = [lo <= r[-1] <= hi for r in rows]
  exp_all = True
  for o in ok:
    exp_all = exp_all and o
  # ConsistentEnd: some row validates and every row from the first validating one on validates
  exp_ce = False
  for i in range(len(ok)):
    if ok[i]:
      exp_ce = True
      for o in ok[i:]:
        exp_ce = exp_ce and o
      break
  return V.DimensionPivot(sub)(rows) == exp_all and V.ConsistentEndDimensionPivot(sub)(rows) == exp_ce


@cond(timeout=60, expect='refute')
def w_dimension_pivot(lo: int, hi: int, v0: int, v1: int) -> bool:
  """
  pre: lo <= hi
  post: _
  """
  rows = [(0, v0), (1, v1)]
  sub = V.InRange(lo, hi)
  return not (V.ConsistentEndDimensionPivot(sub)(rows) and not V.DimensionPivot(sub)(rows))


# =================================================================== E2 ======
# WithinPercent: IEEE-754 binary64 lemmas, formulas regenerated from the live AST.

import random as _random
import time as _time

import z3
from vlib import smt as _smt

_WP_PAIRS_QUICK = [(10, None), (0.5, None), (150, None), (0, None), (10, 1), (100, 50), (1, 0.5)]
_WP_PAIRS_THOROUGH = ([(p, None) for p in _PCT] +
                      [(p, m) for p in _PCT for m in _PCT if m and m < p])


def _wp_terms(p, mp, sort):
  e = z3.FP('e', sort)
  v = z3.FP('v', sort)
  A = _smt.PyFP(V.WithinPercent, {'expected': e, 'percent': p, 'marginal_percent': mp}, sort)
  accept = _smt.as_bool(A.call('__call__', value=v))
  marg = _smt.as_bool(A.call('is_marginal', value=v))
  return e, v, A, accept, marg


def _wp_spec_accept(e, v, p, sort):
  rm = z3.RNE()
  tol = z3.fpAbs(z3.fpDiv(rm, z3.fpMul(rm, e, z3.FPVal(float(p), sort)), z3.FPVal(100.0, sort)))
  return z3.And(z3.fpLEQ(z3.fpSub(rm, e, tol), v), z3.fpLEQ(v, z3.fpAdd(rm, e, tol)))


def _wp_validate_translator(n=200, seed=7):
  """Serval-style: concrete inputs through both the real class and the formula."""
  rnd = _random.Random(seed)
  sort = z3.Float64()
  checked = 0
  specials = [0.0, -0.0, 1.0, -1.0, 100.0, -100.0, 1e308, -1e308, 5e-324, float('inf'), float('-inf'), float('nan'), 95.0, 105.0, 99.0, 101.0]
  cases = []
  for (p, mp) in _WP_PAIRS_THOROUGH:
    for _ in range(max(1, n // len(_WP_PAIRS_THOROUGH))):
      ev = rnd.choice(specials[:9] + [rnd.uniform(-1e3, 1e3)])
      vv = rnd.choice(specials + [ev, ev * (1 + p / 100.0), ev * (1 - p / 100.0), rnd.uniform(-2e3, 2e3)])
      cases.append((p, mp, ev, vv))
  for (p, mp, ev, vv) in cases:
    e, v, A, accept, marg = _wp_terms(p, mp, sort)
    sub = [(e, z3.FPVal(ev, sort)), (v, z3.FPVal(vv, sort))]
    fa = z3.is_true(z3.simplify(z3.substitute(accept, *sub)))
    fm = z3.is_true(z3.simplify(z3.substitute(marg, *sub)))
    real = V.WithinPercent(ev, p, mp)
    ra, rmg = bool(real(vv)), bool(real.is_marginal(vv))
    if (fa, fm) != (ra, rmg):
      raise AssertionError('translator disagrees with real code on %r: formula %r real %r' % ((p, mp, ev, vv), (fa, fm), (ra, rmg)))
    checked += 1
  return checked


def _wp_run(queries, tier, sort_name='Float64'):
  """queries: list of (name, pair, negated_formula, vars, replay_fn)."""
  out = {'queries': 0, 'nontrivial': 0, 'samples': [], 'solver_time_s': 0.0}
  for name, pair, neg, (e, v), replay in queries:
    st, model, dt, _ = _smt.check(neg, timeout_s=240 if tier == 'quick' else 900)
    out['queries'] += 1
    out['solver_time_s'] = round(out['solver_time_s'] + dt, 2)
    if len(out['samples']) < 4:
      out['samples'].append({'query': name, 'pair': pair, 'sort': sort_name, 'result': st, 'secs': round(dt, 2)})
    if st == 'unsat':
      out['nontrivial'] += 1
      continue
    if st == 'sat':
      ev, vv = _smt.fp_to_py(model, e), _smt.fp_to_py(model, v)
      ok = replay(ev, vv)
      out.update(verdict='violated', cex={'query': name, 'pair': pair, 'expected': repr(ev), 'value': repr(vv)},
                 replayed=not ok, message='%s pair=%s e=%r v=%r' % (name, pair, ev, vv))
      return out
    out.update(verdict='unknown', message='%s pair=%s: solver said %s after %.0fs' % (name, pair, st, dt))
    return out
  out['verdict'] = 'holds'
  return out


@cond(engine='smt', timeout=900, timeout_thorough=7200,
      note='FP64: WithinPercent.__call__ == (e-t <= v <= e+t), t=|e*p/100| (inclusive, symmetric, negative expected); NaN rejected; expected accepted')
def q_within_percent_accept_fp64(tier):
  n = _wp_validate_translator()
  sort = z3.Float64()
  pairs = _WP_PAIRS_QUICK if tier == 'quick' else _WP_PAIRS_THOROUGH
  qs = []
  for (p, mp) in pairs:
    e, v, A, accept, marg = _wp_terms(p, mp, sort)
    spec = _wp_spec_accept(e, v, p, sort)

    def rp_acc(ev, vv, p=p, mp=mp):
      val = V.WithinPercent(ev, p, mp)
      tol = abs(ev * p / 100.0)
      return bool(val(vv)) == (ev - tol <= vv <= ev + tol)
    qs.append(('accept==spec', (p, mp), accept != spec, (e, v), rp_acc))

    def rp_nan(ev, vv, p=p, mp=mp):
      val = V.WithinPercent(ev, p, mp)
      return not (vv != vv and (val(vv) or val.is_marginal(vv)))
    qs.append(('nan-rejected', (p, mp), z3.And(z3.fpIsNaN(v), z3.Or(accept, marg)), (e, v), rp_nan))

    def rp_self(ev, vv, p=p, mp=mp):
      return bool(V.WithinPercent(ev, p, mp)(ev))
    fin = z3.And(z3.Not(z3.fpIsNaN(e)), z3.Not(z3.fpIsInf(e)))
    qs.append(('expected-accepted', (p, mp), z3.And(fin, v == e, z3.Not(accept)), (e, v), rp_self))
  r = _wp_run(qs, tier)
  r['translator_validated_on'] = n
  return r


def _mk_marg_query(p, mp):
  def q(tier, p=p, mp=mp):
    sort = z3.Float64()
    e, v, A, accept, marg = _wp_terms(p, mp, sort)

    def rp(ev, vv):
      val = V.WithinPercent(ev, p, mp)
      return (not val.is_marginal(vv)) or bool(val(vv))
    return _wp_run([('marginal=>accepted', (p, mp), z3.And(marg, z3.Not(accept)), (e, v), rp)], tier)
  return q


for _i, (_p, _mp) in enumerate([pm for pm in _WP_PAIRS_THOROUGH if pm[1]]):
  _name = 'q_wp_marginal_inside_fp64_p%s_m%s' % (str(_p).replace('.', '_'), str(_mp).replace('.', '_'))
  _f = _mk_marg_query(_p, _mp)
  _f.__name__ = _name
  _f.__module__ = __name__
  globals()[_name] = _f
  _tiers = ('quick', 'thorough') if (_p, _mp) in _WP_PAIRS_QUICK else ('thorough',)
  cond(engine='smt', tiers=_tiers, timeout=900, timeout_thorough=3600,
       note='FP64: WithinPercent(e,%s,%s).is_marginal(v) => accepted(v)' % (_p, _mp))(_f)


# ---------------------------------------------------------------- regexes (E2) --
# RegexMatcher.__call__ is translated from its AST: which method of the
# compiled pattern is applied to str(value) decides the accepted language
# (match: L.Sigma*, search: Sigma*.L.Sigma*, fullmatch: L).

import ast as _ast
import inspect as _inspect
import re as _re
import textwrap as _textwrap


def _regexmatcher_mode():
  src = _textwrap.dedent(_inspect.getsource(V.RegexMatcher.__call__))
  fd = _ast.parse(src).body[0]
  rets = [n for n in _ast.walk(fd) if isinstance(n, _ast.Return)]
  if len(rets) != 1:
    raise _smt.Untranslatable('RegexMatcher.__call__: expected a single return')
  e = rets[0].value
  # shape: self._compiled.<m>(str(value)) is not None
  if not (isinstance(e, _ast.Compare) and len(e.ops) == 1 and isinstance(e.ops[0], _ast.IsNot)
          and isinstance(e.comparators[0], _ast.Constant) and e.comparators[0].value is None):
    raise _smt.Untranslatable('RegexMatcher.__call__: unexpected return shape')
  c = e.left
  if not (isinstance(c, _ast.Call) and isinstance(c.func, _ast.Attribute)
          and isinstance(c.func.value, _ast.Attribute) and c.func.value.attr == '_compiled'
          and len(c.args) == 1 and isinstance(c.args[0], _ast.Call)
          and isinstance(c.args[0].func, _ast.Name) and c.args[0].func.id == 'str'):
    raise _smt.Untranslatable('RegexMatcher.__call__: unexpected call shape')
  if c.func.attr not in ('match', 'search', 'fullmatch'):
    raise _smt.Untranslatable('RegexMatcher.__call__: method %s' % c.func.attr)
  return c.func.attr


def _impl_language(compiled, mode):
  import re._constants as C  # type: ignore
  parsed = _smt.parse_pattern(compiled)
  items = list(parsed)
  anchored_end = bool(items) and items[-1][0] is C.AT and items[-1][1] in (C.AT_END,)
  anchored_begin = bool(items) and items[0][0] is C.AT and items[0][1] in (C.AT_BEGINNING, C.AT_BEGINNING_STRING)

  def on_at(av, idx, n):
    if av in (C.AT_BEGINNING, C.AT_BEGINNING_STRING) and idx == 0:
      return None
    if av is C.AT_END and idx == n - 1:
      return z3.Option(z3.Re('\n'))      # `$` = end of string or just before one trailing newline
    raise _smt.Untranslatable('anchor %s at %d' % (av, idx))
  L = _smt.sre_to_z3(parsed, compiled.flags, on_at)
  anyc = z3.Star(z3.AllChar(z3.ReSort(z3.StringSort())))
  pre = z3.Re('') if (mode in ('match', 'fullmatch') or anchored_begin) else anyc
  post = z3.Re('') if (mode == 'fullmatch' or anchored_end) else anyc
  return z3.Concat(pre, L, post)


_RX_ALPHA = ['a', 'B', '0', '.', '*', '+', '?', '(', ')', '[', ']', '{', '}', '\\', '|', '^', '$', ' ', '-', '\n', '#']


def _literals(tier):
  lits = [''] + list(_RX_ALPHA)
  two = [a + b for a in _RX_ALPHA for b in _RX_ALPHA]
  rnd = _random.Random(11)
  if tier == 'quick':
    lits += rnd.sample(two, 40) + ['a.b', 'x*y', '1+1', 'a\nb', '^a$', '$$', '\\d', 'ab\n']
  else:
    lits += two + [a + b + c for a in _RX_ALPHA[:10] for b in _RX_ALPHA[3:12] for c in _RX_ALPHA[8:]]
  return lits


@cond(engine='smt', timeout=900, timeout_thorough=7200,
      note='equals(str)/all_equals(str): accepted language == {lit, lit+"\\n"} (z3 regex equivalence, |s|<=len(lit)+3)')
def q_equals_str_language(tier):
  mode = _regexmatcher_mode()
  out = {'queries': 0, 'nontrivial': 0, 'samples': [], 'solver_time_s': 0.0, 'regexmatcher_mode': mode}
  s = z3.String('s')
  for lit in _literals(tier):
    for factory in (V.equals, V.all_equals):
      val = factory(lit)
      if not isinstance(val, V.RegexMatcher):
        out.update(verdict='violated', replayed=True, cex={'literal': lit, 'got': type(val).__name__},
                   message='equals(%r) did not build a regex matcher' % lit)
        return out
      impl = _impl_language(val._compiled, mode)
      spec = z3.Union(z3.Re(lit), z3.Re(lit + '\n')) if lit else z3.Union(z3.Re(''), z3.Re('\n'))
      neg = z3.And(z3.Length(s) <= len(lit) + 3, z3.Xor(z3.InRe(s, impl), z3.InRe(s, spec)))
      st, model, dt, _ = _smt.check(neg, timeout_s=120)
      out['queries'] += 1
      out['solver_time_s'] = round(out['solver_time_s'] + dt, 2)
      if len(out['samples']) < 4:
        out['samples'].append({'literal': lit, 'pattern': val.regex, 'result': st})
      if st == 'unsat':
        out['nontrivial'] += 1
        continue
      if st == 'sat':
        sv = model.eval(s, model_completion=True).as_string()
        sv = sv.encode('latin-1', 'backslashreplace').decode('unicode_escape') if '\\u{' in sv else sv
        real = bool(val(sv))
        want = sv in (lit, lit + '\n')
        out.update(verdict='violated', replayed=(real != want),
                   cex={'literal': lit, 'probe': sv, 'real_accepts': real, 'spec_accepts': want},
                   message='equals(%r)(%r) -> %r, spec %r' % (lit, sv, real, want))
        return out
      out.update(verdict='unknown', message='literal %r: solver %s' % (lit, st))
      return out
    # concrete cross-check of the translation on this literal (translator validation)
    for probe in (lit, lit + '\n', lit + '\n\n', lit + 'x', 'x' + lit, lit[:-1] if lit else 'x'):
      if bool(V.equals(lit)(probe)) != (probe in (lit, lit + '\n')):
        out.update(verdict='violated', replayed=True, cex={'literal': lit, 'probe': probe},
                   message='equals(%r)(%r) concrete disagreement' % (lit, probe))
        return out
  out['verdict'] = 'holds'
  return out


_RX_PATTERNS = [r'\d+', r'ab', r'a|bc', r'[a-c]x?', r'x{2,3}', r'(ab)*c', r'[^0-9]', r'\w\s', r'a.c', r'^ab', r'ab$', r'(?i)ab']


@cond(engine='smt', timeout=900, timeout_thorough=3600,
      note='matches_regex(P): accepted set == {s : s has a prefix in L(P)} (matched from the start of str(value)); z3 regex + replay on re')
def q_matches_regex_from_start(tier):
  mode = _regexmatcher_mode()
  out = {'queries': 0, 'nontrivial': 0, 'samples': [], 'solver_time_s': 0.0, 'regexmatcher_mode': mode}
  s = z3.String('s')
  anyc = z3.Star(z3.AllChar(z3.ReSort(z3.StringSort())))
  for pat in _RX_PATTERNS:
    val = V.matches_regex(pat)
    impl = _impl_language(val._compiled, mode)
    spec = _impl_language(val._compiled, 'match')      # the statement: matched from the start
    ascii_only = z3.InRe(s, z3.Star(z3.Range(chr(1), chr(126))))
    neg = z3.And(z3.Length(s) <= 5, ascii_only, z3.Xor(z3.InRe(s, impl), z3.InRe(s, spec)))
    st, model, dt, _ = _smt.check(neg, timeout_s=120)
    out['queries'] += 1
    out['solver_time_s'] = round(out['solver_time_s'] + dt, 2)
    if st == 'sat':
      sv = model.eval(s, model_completion=True).as_string()
      real = bool(val(sv))
      want = _re.compile(pat).match(sv) is not None
      out.update(verdict='violated', replayed=(real != want), cex={'pattern': pat, 'probe': sv},
                 message='matches_regex(%r)(%r) -> %r, from-start semantics %r' % (pat, sv, real, want))
      return out
    if st != 'unsat':
      out.update(verdict='unknown', message='pattern %r: solver %s' % (pat, st))
      return out
    # second query validates the translation itself against `re` on a solver-chosen member and non-member
    for member in (True, False):
      q = z3.And(z3.Length(s) <= 5, ascii_only, z3.InRe(s, spec) if member else z3.Not(z3.InRe(s, spec)))
      st2, m2, dt2, _ = _smt.check(q, timeout_s=60)
      out['queries'] += 1
      out['solver_time_s'] = round(out['solver_time_s'] + dt2, 2)
      if st2 == 'sat':
        sv = m2.eval(s, model_completion=True).as_string()
        if '\\u{' in sv:
          continue
        if (_re.compile(pat).match(sv) is not None) != member or bool(val(sv)) != member:
          out.update(verdict='violated', replayed=bool(val(sv)) != member, cex={'pattern': pat, 'probe': sv, 'member': member},
                     message='matches_regex(%r)(%r): real %r, expected %r' % (pat, sv, bool(val(sv)), member))
          return out
        out['nontrivial'] += 1
        if len(out['samples']) < 4:
          out['samples'].append({'pattern': pat, 'probe': sv, 'member': member})
  # str(value) is applied to non-str values
  if not (V.matches_regex(r'12')(123) and not V.matches_regex(r'23')(123)):
    out.update(verdict='violated', replayed=True, cex={'pattern': '12/23', 'probe': 123}, message='str(value) from-start semantics broken for int probe')
    return out
  out['verdict'] = 'holds'
  return out
