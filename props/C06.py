"""C06 - measurement outcome = all validators on the recorded (transformed) value.

E1 over the real measurements.Collection / Measurement / MeasuredValue /
DimensionedMeasuredValue, PhaseState.from_descriptor (conditional validators),
_finalize_measurements, _measurements_pass/_marginal and the real validators,
for symbolic assignment histories.
"""
import vlib.env  # noqa: F401
from vlib.cond import cond, reach
from vlib import stubs, htfstub

stubs.install_fmtshim(objects_opaque=True)

import openhtf as htf
from openhtf.core import diagnoses_lib
from openhtf.core import measurements as MS
from openhtf.core import phase_descriptor as PD
from openhtf.core import phase_executor as PE
from openhtf.core import test_record as TR
from openhtf.core import test_state as TS
from openhtf.util import configuration
from openhtf.util import validators as V

htfstub.install_clock(TS, TR, PE)
htfstub.quiet_logging()
CONF = configuration.CONF

PROPERTY = 'C06'
LEVEL = 'other'


def FUNCTIONS():
  return [MS.Collection.__setitem__, MS.Collection.__getitem__, MS.Measurement.notify_value_set,
          MS.Measurement.validate, MS.Measurement.set_notification_callback, MS.Measurement.with_validator,
          MS.Measurement.with_transform, MS.MeasuredValue.set, MS.MeasuredValue.value.fget,
          MS.DimensionedMeasuredValue.__setitem__, MS.DimensionedMeasuredValue.value.fget, MS._coordinates_len,
          TS.PhaseState.from_descriptor, TS.PhaseState._finalize_measurements, TS.PhaseState._measurements_pass,
          TS.PhaseState._measurements_marginal, V.InRange.__call__, V.InRange.is_marginal]


BOUNDS = {'history': '<= 2 (quick) / 3 (thorough) scalar assignments, <= 3 dimensioned assignments, mixed scalar/dimensioned orders; each each to the scalar measurement, the dimensioned one (1-D or 2-D, coordinates in {0,1}), an undeclared name, the dimensioned one without coordinates, or with the wrong number of coordinates',
          'values': 'symbolic ints; None (without transform)', 'validators': 'in_range with symbolic limits and marginal band; optional second validator (equals / raising); conditional validator present iff its diagnosis result existed at phase start (symbolic)',
          'transforms': 'none, x*2, x+1'}
STUBS = ['fake TestState (diagnoses store answers has_diagnosis_result with a symbolic bool; notify_update counts)', 'FakeClock for util.time_millis', 'logging disabled', 'fmtshim']
ASSUMPTIONS = ['validators are deterministic functions of the value']
OUTSIDE = ['pandas paths (to_dataframe/from_dataframe)', 'units', 'float/NaN/str values in histories (validators on floats are C07)']


import logging as _logging
_NULL_LOGGER = _logging.getLogger('verif.null')


class D(diagnoses_lib.DiagResultEnum):
  X = 'x'


class VErr(Exception):
  pass


def _raising(value):
  raise VErr('validator failed')


class _Store:
  def __init__(self, present):
    self.present = present

  def has_diagnosis_result(self, result):
    return self.present


class _FakeTestState:
  def __init__(self, cv_present):
    self.diagnoses_manager = type('DM', (), {})()
    self.diagnoses_manager.store = _Store(cv_present)
    self.notifications = 0

  def notify_update(self):
    self.notifications += 1


import copy


class _NullLogger:
  """Phase logger stand-in: the 'already terminal' branch of _finalize_measurements only logs."""

  def exception(self, *a, **k):
    pass

  debug = info = warning = error = critical = exception


def _template_phase(test):
  pass


_PHASE_TEMPLATE = PD.PhaseDescriptor.wrap_or_copy(_template_phase)


def _tf(kind):
  if kind == 1:
    return lambda x: x * 2
  if kind == 2:
    return lambda x: x + 1
  return None


def _apply_tf(kind, x):
  if kind == 1:
    return x * 2
  if kind == 2:
    return x + 1
  return x


def _mk(lo, mlo, mhi, hi, tf, second, eqv, clo, chi, has_cv, cv_present, ndim, dim_second):
  m0 = MS.Measurement('m0').in_range(lo, hi, mlo, mhi)
  if tf:
    m0.with_transform(_tf(tf))
  if second == 1:
    m0.with_validator(V.Equals(eqv))
  elif second == 2:
    m0.with_validator(_raising)
  if has_cv:
    m0.validate_on({D.X: V.InRange(clo, chi)})
  md = MS.Measurement('md').with_dimensions(*(['x', 'y'][:ndim]))
  if tf:
    md.with_transform(_tf(tf))
  md.with_validator(V.DimensionPivot(V.InRange(lo, hi)))
  if dim_second == 2:
    md.with_validator(_raising)

  # the descriptor skeleton is built once at import (code-info capture is slow under
  # tracing and irrelevant here); only its measurement list is per-path.
  phase = copy.copy(_PHASE_TEMPLATE)
  phase.measurements = [m0, md]
  ts = _FakeTestState(cv_present)
  ps = TS.PhaseState.from_descriptor(phase, ts, _NULL_LOGGER)
  return phase, ps, ts


def _accepts(lo, hi, v):
  return v is not None and lo <= v <= hi


def _marg(lo, mlo, mhi, hi, v):
  return v is not None and ((lo <= v <= mlo) or (mhi <= v <= hi))


def _same(a, b):
  return (a is None and b is None) or (a is not None and b is not None and a == b)


def _scalar_ops(coll, m0, md, ops, tf, second, lo, hi):
  """Applies ops to the scalar measurement / an undeclared name; returns (ok, set?, recorded)."""
  s_set, s_val, ok = False, None, True
  idx = 0
  for t, v, isnone in ops:
    val = None if (isnone and tf == 0) else v
    idx += 1
    if t == 0:
      try:
        if idx % 2 == 1:
          coll['m0'] = val
        else:
          coll.m0 = val                      # attribute form of the same assignment
        raised = False
      except VErr:
        raised = True
      s_set, s_val = True, (_apply_tf(tf, val) if val is not None else None)
      # a raising validator surfaces at the assignment (validators run in order and
      # stop at the first rejection, so it is reached only if in_range accepted)
      if raised != (second == 2 and _accepts(lo, hi, s_val)):
        ok = False
    else:
      before = (m0.outcome, m0.measured_value.is_value_set, md.outcome, len(md.measured_value.value_dict))
      try:
        coll['nope'] = val                   # undeclared name
        ok = False
      except MS.NotAMeasurementError:
        pass
      if before != (m0.outcome, m0.measured_value.is_value_set, md.outcome, len(md.measured_value.value_dict)):
        ok = False
  return ok, s_set, s_val


def _scalar_expect(m0, s_set, s_val, lo, mlo, mhi, hi, second, eqv, cv_on, clo, chi):
  """Checks the scalar measurement against the from-scratch oracle; returns (ok, 'UNSET'|'PASS'|'FAIL')."""
  if not s_set:
    return (m0.outcome is MS.Outcome.UNSET and not m0.measured_value.is_value_set), 'UNSET'
  if not _same(m0.measured_value.value, s_val):
    return False, '?'                        # recorded value = transform(last assigned)
  acc = _accepts(lo, hi, s_val)
  if second == 1:
    acc = acc and (s_val is not None and s_val == eqv)
  if second == 2:
    acc = False                              # raising validator (reached) or in_range rejected
  if cv_on:
    acc = acc and _accepts(clo, chi, s_val)
  exp = 'PASS' if acc else 'FAIL'
  if m0.outcome.name != exp:
    return False, exp
  exp_marg = acc and _marg(lo, mlo, mhi, hi, s_val)
  return bool(m0.marginal) == bool(exp_marg), exp   # marginal only if PASS and a validator deems it marginal


def _scalar_history(lo, mlo, mhi, hi, tf, second, eqv, clo, chi, has_cv, cv_present, ops):
  phase, ps, ts = _mk(lo, mlo, mhi, hi, tf, second, eqv, clo, chi, has_cv, cv_present, 1, 0)
  coll = MS.Collection(ps.measurements)
  m0, md = ps.measurements['m0'], ps.measurements['md']
  ok, s_set, s_val = _scalar_ops(coll, m0, md, ops, tf, second, lo, hi)
  ps.result = PE.PhaseExecutionOutcome(PD.PhaseResult.CONTINUE)
  ps._finalize_measurements()
  reach()
  if not ok:
    return False
  good, exp0 = _scalar_expect(m0, s_set, s_val, lo, mlo, mhi, hi, second, eqv, has_cv and cv_present, clo, chi)
  # the declared phase measurements were deep-copied: the descriptor's own measurement is untouched
  return good and md.outcome is MS.Outcome.UNSET and phase.measurements[0].outcome is MS.Outcome.UNSET


@cond(timeout=900, split={'tf': range(3), 'second': (0, 2), 'n': range(3)})
def c_scalar_history(lo: int, mlo: int, mhi: int, hi: int, tf: int, second: int,
                     clo: int, chi: int, has_cv: bool, cv_present: bool,
                     n: int, t0: int, v0: int, t1: int, v1: int) -> bool:
  """
  pre: lo <= mlo <= mhi <= hi
  pre: clo <= chi
  pre: 0 <= tf <= 2 and second in (0, 2)
  pre: 0 <= n <= 2
  pre: 0 <= t0 <= 1 and 0 <= t1 <= 1
  post: _
  """
  ops = [(t0, v0, False), (t1, v1, False)][:n]
  return _scalar_history(lo, mlo, mhi, hi, tf, second, 0, clo, chi, has_cv, cv_present, ops)


@cond(tiers=('thorough',), timeout=3600, split={'tf': range(3), 'second': (0, 2), 't0': range(2), 't1': range(2)})
def c_scalar_history3(lo: int, mlo: int, mhi: int, hi: int, tf: int, second: int,
                      clo: int, chi: int, has_cv: bool, cv_present: bool,
                      t0: int, v0: int, t1: int, v1: int, t2: int, v2: int) -> bool:
  """
  pre: lo <= mlo <= mhi <= hi
  pre: clo <= chi
  pre: 0 <= tf <= 2 and second in (0, 2)
  pre: 0 <= t0 <= 1 and 0 <= t1 <= 1 and 0 <= t2 <= 1
  post: _
  """
  ops = [(t0, v0, False), (t1, v1, False), (t2, v2, False)]
  return _scalar_history(lo, mlo, mhi, hi, tf, second, 0, clo, chi, has_cv, cv_present, ops)


@cond(timeout=600, split={'second': range(3)})
def c_scalar_single(lo: int, mlo: int, mhi: int, hi: int, tf: int, second: int, eqv: int,
                    clo: int, chi: int, has_cv: bool, cv_present: bool, v0: int, n0: bool) -> bool:
  """
  pre: lo <= mlo <= mhi <= hi
  pre: clo <= chi
  pre: 0 <= tf <= 2 and 0 <= second <= 2
  post: _
  """
  return _scalar_history(lo, mlo, mhi, hi, tf, second, eqv, clo, chi, has_cv, cv_present, [(0, v0, n0)])


def _dim_ops(coll, m0, md, ops, tf, ndim):
  dims, ok = [], True
  for t, c, v, isnone in ops:
    val = None if (isnone and tf == 0) else v
    if t == 0:
      coord = (c,) if ndim == 1 else (c, 1 - c)
      if ndim == 1:
        coll['md'][c] = val
      else:
        coll['md'][c, 1 - c] = val
      rec = _apply_tf(tf, val) if val is not None else None
      for i in range(len(dims)):
        if dims[i][0] == coord:
          dims[i] = (coord, rec)
          break
      else:
        dims.append((coord, rec))
    else:
      before = (m0.outcome, md.outcome, len(md.measured_value.value_dict))
      try:
        if t == 1:
          coll['md'] = val                   # dimensioned measurement without coordinates
        elif ndim == 1:
          coll['md'][c, c] = val             # wrong number of coordinates
        else:
          coll['md'][c] = val
        ok = False
      except MS.InvalidDimensionsError:
        pass
      if before != (m0.outcome, md.outcome, len(md.measured_value.value_dict)):
        ok = False
  return ok, dims


def _dim_expect(ps, md, dims, lo, hi, dim_second):
  if md.outcome is MS.Outcome.PARTIALLY_SET:
    return False, '?'
  if not dims:
    return (md.outcome is MS.Outcome.UNSET and not ps.result.raised_exception), 'UNSET'
  gotv = md.measured_value.value
  if len(gotv) != len(dims):
    return False, '?'
  accd = True
  for row, (coord, rec) in zip(gotv, dims):      # per coordinate, in first-assignment order
    if tuple(row[:-1]) != coord or not _same(row[-1], rec):
      return False, '?'
    accd = accd and _accepts(lo, hi, rec)
  dim_raises = (dim_second == 2 and accd)        # reached only if the first validator accepted every row
  if dim_raises:
    accd = False
  if bool(ps.result.raised_exception) != dim_raises:   # surfaces as an error of the phase at phase end
    return False, '?'
  expd = 'PASS' if accd else 'FAIL'
  return md.outcome.name == expd, expd


@cond(timeout=900, split={'tf': range(3), 'ndim': range(1, 3), 'n': range(3)}, split_thorough={'tf': range(3), 'ndim': range(1, 3), 'n': range(4), 't0': range(3)}, timeout_thorough=3600)
def c_dim_history(lo: int, hi: int, tf: int, ndim: int, dim_second: int,
                  n: int, t0: int, c0: int, v0: int, n0: bool, t1: int, c1: int, v1: int,
                  t2: int, c2: int, v2: int) -> bool:
  """
  pre: lo <= hi
  pre: 0 <= tf <= 2 and 1 <= ndim <= 2 and dim_second in (0, 2)
  pre: 0 <= n <= 3
  pre: 0 <= t0 <= 2 and 0 <= t1 <= 2 and 0 <= t2 <= 2
  pre: 0 <= c0 <= 1 and 0 <= c1 <= 1 and 0 <= c2 <= 1
  post: _
  """
  phase, ps, ts = _mk(lo, lo, hi, hi, tf, 0, 0, 0, 0, False, False, ndim, dim_second)
  coll = MS.Collection(ps.measurements)
  m0, md = ps.measurements['m0'], ps.measurements['md']
  ops = [(t0, c0, v0, n0), (t1, c1, v1, False), (t2, c2, v2, False)][:n]
  ok, dims = _dim_ops(coll, m0, md, ops, tf, ndim)
  if dims and md.outcome is not MS.Outcome.PARTIALLY_SET:
    return False
  ps.result = PE.PhaseExecutionOutcome(PD.PhaseResult.CONTINUE)
  ps._finalize_measurements()
  reach()
  if not ok:
    return False
  good, expd = _dim_expect(ps, md, dims, lo, hi, dim_second)
  return good and m0.outcome is MS.Outcome.UNSET


@cond(timeout=900, split={'order': range(2), 'ndims_set': range(3), 'dim_second': (0, 2)})
def c_mixed_and_pass_criterion(lo: int, mlo: int, mhi: int, hi: int, order: int, sv: int, dv0: int, dv1: int, c0: int, c1: int,
                               set_scalar: bool, ndims_set: int, allow_unset: bool, dim_second: int) -> bool:
  """
  pre: lo <= mlo <= mhi <= hi
  pre: 0 <= order <= 1 and 0 <= ndims_set <= 2 and dim_second in (0, 2)
  pre: 0 <= c0 <= 1 and 0 <= c1 <= 1
  post: _
  """
  phase, ps, ts = _mk(lo, mlo, mhi, hi, 0, 0, 0, 0, 0, False, False, 1, dim_second)
  coll = MS.Collection(ps.measurements)
  m0, md = ps.measurements['m0'], ps.measurements['md']
  dops = [(0, c0, dv0, False), (0, c1, dv1, False)][:ndims_set]
  sops = [(0, sv, False)] if set_scalar else []
  if order == 0:
    ok1, s_set, s_val = _scalar_ops(coll, m0, md, sops, 0, 0, lo, hi)
    ok2, dims = _dim_ops(coll, m0, md, dops, 0, 1)
  else:
    ok2, dims = _dim_ops(coll, m0, md, dops[:1], 0, 1)
    ok1, s_set, s_val = _scalar_ops(coll, m0, md, sops, 0, 0, lo, hi)
    ok3, dims2 = _dim_ops(coll, m0, md, dops[1:], 0, 1)
    for coord, rec in dims2:
      for i in range(len(dims)):
        if dims[i][0] == coord:
          dims[i] = (coord, rec)
          break
      else:
        dims.append((coord, rec))
    ok2 = ok2 and ok3
  ps.result = PE.PhaseExecutionOutcome(PD.PhaseResult.CONTINUE)
  ps._finalize_measurements()
  reach()
  if not (ok1 and ok2):
    return False
  g0, exp0 = _scalar_expect(m0, s_set, s_val, lo, mlo, mhi, hi, 0, 0, False, 0, 0)
  g1, expd = _dim_expect(ps, md, dims, lo, hi, dim_second)
  if not (g0 and g1):
    return False
  # phase pass criterion: every measurement PASS (or UNSET when allowed); marginal if any is marginal
  CONF.load(allow_unset_measurements=bool(allow_unset))
  try:
    want = True
    for e in (exp0, expd):
      if not (e == 'PASS' or (e == 'UNSET' and allow_unset)):
        want = False
    wantm = (exp0 == 'PASS' and _marg(lo, mlo, mhi, hi, s_val))
    return bool(ps._measurements_pass()) == want and bool(ps._measurements_marginal()) == bool(wantm)
  finally:
    CONF.reset()


@cond(timeout=120, expect='refute')
def w_history_override(lo: int, mlo: int, mhi: int, hi: int, v0: int, v1: int) -> bool:
  """
  pre: lo <= mlo < mhi <= hi
  post: _
  """
  phase, ps, ts = _mk(lo, mlo, mhi, hi, 1, 0, 0, 0, 0, False, False, 1, 0)
  coll = MS.Collection(ps.measurements)
  coll['m0'] = v0
  coll['m0'] = v1
  m0 = ps.measurements['m0']
  # witness: first value marginal-pass, override fails; recorded value is the transform of the last
  return not (m0.outcome is MS.Outcome.FAIL and m0.measured_value.value == v1 * 2 and _marg(lo, mlo, mhi, hi, v0 * 2))


@cond(timeout=600, split={'end': range(4)})
def c_two_dimensioned_finalize(lo: int, hi: int, raise_first: bool, set1: bool, set2: bool, set3: bool,
                               v1: int, v2: int, v3: int, order: bool, end: int) -> bool:
  """
  pre: lo <= hi
  pre: 0 <= end <= 3
  post: _
  """
  # end: how the phase body ended - 0 normally (CONTINUE), 1 returned STOP, 2 raised, 3 timed out.  Whatever
  # the result, no measurement may leave the phase PARTIALLY_SET and a terminal result is never overwritten.
  # three dimensioned measurements declared in order; the first one's validator may raise at phase end
  ms = []
  for i in range(3):
    m = MS.Measurement('d%d' % i).with_dimensions('x')
    if i == 0 and raise_first:
      m.with_validator(_raising)
    else:
      m.with_validator(V.DimensionPivot(V.InRange(lo, hi)))
    ms.append(m)
  phase = copy.copy(_PHASE_TEMPLATE)
  phase.measurements = ms
  ps = TS.PhaseState.from_descriptor(phase, _FakeTestState(False), _NullLogger())
  coll = MS.Collection(ps.measurements)
  todo = [(0, set1, v1), (1, set2, v2), (2, set3, v3)]
  if order:
    todo.reverse()
  for i, on, v in todo:
    if on:
      coll['d%d' % i][0] = v
  if end == 0:
    res0 = PE.PhaseExecutionOutcome(PD.PhaseResult.CONTINUE)
  elif end == 1:
    res0 = PE.PhaseExecutionOutcome(PD.PhaseResult.STOP)
  elif end == 2:
    res0 = PE.PhaseExecutionOutcome(PE.ExceptionInfo(RuntimeError, RuntimeError('body failed'), None))
  else:
    res0 = PE.PhaseExecutionOutcome(None)
  ps.result = res0
  ps._finalize_measurements()
  reach()
  if end != 0 and ps.result is not res0:          # the body's terminal result stands
    return False
  for i, on, v in todo:
    m = ps.measurements['d%d' % i]
    if m.outcome is MS.Outcome.PARTIALLY_SET:      # no measurement leaves a phase PARTIALLY_SET
      return False
    if m._notification_cb is not None:
      return False
    if not on:
      exp = 'UNSET'
    elif i == 0 and raise_first:
      exp = 'FAIL'
    else:
      exp = 'PASS' if lo <= v <= hi else 'FAIL'
    if m.outcome.name != exp:
      return False
  if end != 0:
    return True
  return bool(ps.result.raised_exception) == bool(raise_first and set1)
