"""C13 - ADB message framing: lossless round trip, corrupt frames rejected.

E1 over the real AdbMessage / RawAdbMessage / AdbTransportAdapter with the
SymStruct stub for `struct` and a scripted transport.
"""
import vlib.env  # noqa: F401
from vlib.cond import cond, reach
from vlib import stubs, usbstub

stubs.install_fmtshim(objects_opaque=True)

M = usbstub.load_usb('adb_message')
X = usbstub.load_usb('usb_exceptions')
M.struct = usbstub.SymStruct          # stub: validated against the real struct in prepare()

PROPERTY = 'C13'
LEVEL = 'other'
CMDS = ('SYNC', 'CNXN', 'AUTH', 'OPEN', 'OKAY', 'CLSE', 'WRTE')
WIRE = {c: sum(ord(ch) << (i * 8) for i, ch in enumerate(c)) for c in CMDS}   # independent of make_wire_commands


class EqDict(dict):
  """dict whose look-ups scan keys by equality (symbolic keys must not be hashed)."""

  def get(self, k, default=None):
    for kk in dict.keys(self):
      if k == kk:
        return dict.__getitem__(self, kk)
    return default

  def __contains__(self, k):
    for kk in dict.keys(self):
      if k == kk:
        return True
    return False

  def __getitem__(self, k):
    for kk in dict.keys(self):
      if k == kk:
        return dict.__getitem__(self, kk)
    raise KeyError(k)


M.AdbMessage.WIRE_TO_CMD = EqDict(M.AdbMessage.WIRE_TO_CMD)


def FUNCTIONS():
  return [M.make_wire_commands, M.AdbMessage.__init__, M.AdbMessage.header.fget, M.AdbMessage.data_crc32.fget,
          M.AdbMessage.command.fget, M.RawAdbMessage.to_adb_message,
          M.AdbTransportAdapter.write_message, M.AdbTransportAdapter.read_message]


BOUNDS = {'command': 'all 7', 'arg0/arg1/header words': 'all values 0 <= w < 2**32 (symbolic)',
          'payload': 'str of code points < 256, length <= 4 (quick) / <= 6 (thorough)',
          'header length': '0..25 byte values for the short/empty header clause',
          'message reuse': 'one message object written (or its header read), data and arg0 reassigned (payloads <= 3), written again; commands SYNC and OKAY (the code is uniform in the command)'}
STUBS = ['SymStruct: struct.pack/unpack/calcsize/error for "<nI"/">nI" by base-256 arithmetic; validated against the real struct on seeded words at start-up',
         'FakeTransport: scripted reads, recorded writes', 'ScriptTimeout: has_expired() answers are symbolic booleans',
         'EqDict: AdbMessage.WIRE_TO_CMD look-ups by equality scan instead of hashing (hashing realises a symbolic key)',
         'fmtshim with opaque objects: exception/log message texts are not checked',
         'timeouts.PolledTimeout.from_millis(10) inside write/read_message uses the real class with real time (its value is not consulted by FakeTransport)']
ASSUMPTIONS = ['payloads are str with code points < 256 (what the module\'s own default data=\'\' and ord()-based checksum imply; bytes payloads raise TypeError on Python 3 - observation, not claimed)',
               'a transport read(n) returns at most n items']
OUTSIDE = ['payloads longer than the bound (the checksum loop is uniform in the length; stated, not proved)',
           'interleaving of concurrent writers/readers (lock discipline): decided by the E3 condition when present, otherwise outside']


def prepare(tier):
  return {'symstruct_validated_words': usbstub.validate_symstruct()}


def _bytesum(s):
  t = 0
  for ch in s:
    t += ord(ch)
  return t % (2 ** 32)


def _hdr(words):
  out = []
  for w in words:
    out.extend(usbstub.le32(w))
  return usbstub.Chunk(out)


def _take(s, n):
  """s[:n] without slicing by a symbolic bound (which CrossHair realises)."""
  out = ''
  i = 0
  for ch in s:
    if i < n:
      out += ch
    i += 1
  return out


def _chars_ok(s):
  for ch in s:
    if ord(ch) >= 256:
      return False
  return True


@cond(timeout=600, split={'ci': range(7)})
def c_layout_and_roundtrip(ci: int, a0: int, a1: int, data: str, expire: bool) -> bool:
  """
  pre: 0 <= ci < 7
  pre: 0 <= a0 < 2**32 and 0 <= a1 < 2**32
  pre: len(data) <= 4 and _chars_ok(data)
  post: _
  """
  cmd = CMDS[ci]
  msg = M.AdbMessage(cmd, a0, a1, data)
  t = usbstub.FakeTransport()
  ad = M.AdbTransportAdapter(t)
  ad.write_message(msg, usbstub.ScriptTimeout([expire]))
  reach()
  # layout: 24-byte LE header (command, arg0, arg1, length, byte-sum, command xor 0xFFFFFFFF) then the payload
  exp_hdr = _hdr([WIRE[cmd], a0, a1, len(data), _bytesum(data), WIRE[cmd] ^ 0xFFFFFFFF])
  if len(t.writes) != 2:          # payload is sent even if the timeout expired after the header
    return False
  if len(t.writes[0]) != 24 or list(t.writes[0]) != list(exp_hdr):
    return False
  if t.writes[1] != data:
    return False
  # read back
  t2 = usbstub.FakeTransport([t.writes[0], t.writes[1]])
  got = M.AdbTransportAdapter(t2).read_message(usbstub.ScriptTimeout([expire]))
  return (got.command == cmd and got.arg0 == a0 and got.arg1 == a1 and got.data == data
          and t2.read_sizes[0] == 24 and (len(data) == 0 or t2.read_sizes[1] == len(data)))


@cond(timeout=600, split={'ci': (0, 4)})
def c_message_object_rewritten(ci: int, a0: int, d1: str, d2: str, peek: bool, a0b: int) -> bool:
  """
  pre: 0 <= ci < 7
  pre: 0 <= a0 < 2**32 and 0 <= a0b < 2**32
  pre: len(d1) <= 3 and _chars_ok(d1) and len(d2) <= 3 and _chars_ok(d2)
  post: _
  """
  # History on ONE message object: it is written (or only its header/checksum is looked at), then its public
  # fields are reassigned and it is written again.  "Every ADB message written" - the second frame must describe
  # the payload that follows it, not the payload the object held earlier (nothing derived may be cached).
  cmd = CMDS[ci]
  msg = M.AdbMessage(cmd, a0, 5, d1)
  t = usbstub.FakeTransport()
  ad = M.AdbTransportAdapter(t)
  if peek:
    _ = msg.header
  else:
    ad.write_message(msg, usbstub.ScriptTimeout([False]))
  del t.writes[:]
  msg.data = d2
  msg.arg0 = a0b
  ad.write_message(msg, usbstub.ScriptTimeout([False]))
  reach()
  exp_hdr = _hdr([WIRE[cmd], a0b, 5, len(d2), _bytesum(d2), WIRE[cmd] ^ 0xFFFFFFFF])
  if len(t.writes) != 2 or list(t.writes[0]) != list(exp_hdr) or t.writes[1] != d2:
    return False
  t2 = usbstub.FakeTransport([t.writes[0], t.writes[1]])
  got = M.AdbTransportAdapter(t2).read_message(usbstub.ScriptTimeout([False]))
  return got.command == cmd and got.arg0 == a0b and got.arg1 == 5 and got.data == d2


@cond(timeout=120, expect='refute')
def w_layout_and_roundtrip(a0: int, data: str) -> bool:
  """
  pre: 0 <= a0 < 2**32
  pre: len(data) <= 4 and _chars_ok(data)
  post: _
  """
  msg = M.AdbMessage('WRTE', a0, 7, data)
  t = usbstub.FakeTransport()
  M.AdbTransportAdapter(t).write_message(msg, usbstub.ScriptTimeout([True]))
  t2 = usbstub.FakeTransport(list(t.writes))
  got = M.AdbTransportAdapter(t2).read_message(usbstub.ScriptTimeout())
  return not (len(data) == 3 and a0 > 70000 and got.data == data and got.arg0 == a0)


@cond(timeout=900, split={'wk': range(8)})
def c_reject_iff(wk: int, w0: int, w1: int, w2: int, w3: int, w4: int, w5: int, payload: str, expire: bool) -> bool:
  """
  pre: 0 <= wk < 8
  pre: 0 <= w0 < 2**32 and 0 <= w1 < 2**32 and 0 <= w2 < 2**32 and 0 <= w3 < 2**32 and 0 <= w4 < 2**32 and 0 <= w5 < 2**32
  pre: len(payload) <= 4 and _chars_ok(payload)
  post: _
  """
  # wk < 7: the command word is the wk-th known command; wk == 7: any other word.
  if wk < 7:
    w0 = WIRE[CMDS[wk]]
  else:
    for c in CMDS:
      if w0 == WIRE[c]:
        return True          # covered by the other sub-domains
  class T(usbstub.FakeTransport):
    def read(self, length, timeout_ms=None):
      self.read_sizes.append(length)
      if len(self.read_sizes) == 1:
        return _hdr([w0, w1, w2, w3, w4, w5])
      return _take(payload, length)     # a read returns at most `length` items
  t = T()
  try:
    got = M.AdbTransportAdapter(t).read_message(usbstub.ScriptTimeout([expire]))
    delivered = True
  except (X.AdbDataIntegrityError, X.AdbProtocolError):
    delivered = False
  reach()
  data = _take(payload, w3) if w3 > 0 else ''
  ok_frame = (wk < 7) and len(data) == w3 and _bytesum(data) == w4
  if delivered != ok_frame:
    return False
  if delivered:
    return got.command == CMDS[wk] and got.arg0 == w1 and got.arg1 == w2 and got.data == data
  return True


@cond(timeout=120, expect='refute')
def w_reject_checksum(w4: int, payload: str) -> bool:
  """
  pre: 0 <= w4 < 2**32
  pre: len(payload) == 2 and _chars_ok(payload)
  post: _
  """
  t = usbstub.FakeTransport([_hdr([WIRE['WRTE'], 1, 2, 2, w4, 0]), payload])
  try:
    M.AdbTransportAdapter(t).read_message(usbstub.ScriptTimeout())
    return True
  except X.AdbDataIntegrityError:
    return not (w4 == _bytesum(payload) + 1)     # witness: off-by-one checksum is rejected


@cond(timeout=300)
def c_short_header(n: int, b: int) -> bool:
  """
  pre: 0 <= n <= 25 and n != 24
  pre: 0 <= b < 256
  post: _
  """
  hdr = usbstub.Chunk([b] * n)
  t = usbstub.FakeTransport([hdr, 'xx'])
  reach()
  try:
    M.AdbTransportAdapter(t).read_message(usbstub.ScriptTimeout())
  except X.AdbProtocolError:
    return True
  return False


@cond(timeout=120)
def c_unknown_command_ctor(k: int) -> bool:
  """
  pre: 0 <= k <= 2
  post: _
  """
  reach()
  try:
    M.AdbMessage(('NOPE', None, 'okay')[k])
  except X.AdbProtocolError:
    return True
  return False


# =============================================================== E3: locks ====
# Header and payload of concurrent writers (and readers) never interleave.
# AdbTransportAdapter.write_message / read_message are sequentialised from their
# live source; two threads share one adapter; the schedule is symbolic.

from vlib.seqz import core as Z
from vlib.seqz import prims as _prims

SeqAdapter, _E3_ORIG = Z.encode_subclass(M.AdbTransportAdapter, ['write_message', 'read_message'], {'threading': _prims.threading})
BOUNDS['interleavings'] = 'two writers / two readers on one adapter; <= 2 preemptions at symbolic steps (statement-level yields inside write_message/read_message) plus the choice of the next thread when one blocks; timeout-expired bits symbolic'
STUBS.append('E3: cooperative Lock for _reader_lock/_writer_lock, scheduler with symbolic decisions (vlib/seqz)')
OUTSIDE[:] = [o for o in OUTSIDE if 'interleaving' not in o] + ['preemption inside transport.write/read or inside non-encoded callees']

_FUNCTIONS_E1 = FUNCTIONS


def FUNCTIONS():
  return _FUNCTIONS_E1() + list(_E3_ORIG)


def _adapter(t):
  ad = SeqAdapter(t)
  ad._reader_lock = _prims.Lock()
  ad._writer_lock = _prims.Lock()
  return ad


def _writer(ad, msg, expired):
  yield from Z.co(ad.write_message, msg, usbstub.ScriptTimeout([expired]))


def _reader(ad, out, expired):
  m = yield from Z.co(ad.read_message, usbstub.ScriptTimeout([expired]))
  out.append((m.command, m.arg0, m.data))


@cond(timeout=900, split={'t0': range(2), 't1': range(2), 'e0': (False, True)})
def c_two_writers_do_not_interleave(p0: int, t0: int, p1: int, t1: int, k0: int, e0: bool, e1: bool) -> bool:
  """
  pre: 0 <= p0 <= 18 and 0 <= t0 <= 1 and p0 <= p1 <= 18 and 0 <= t1 <= 1
  pre: 0 <= k0 <= 1
  post: _
  """
  t = usbstub.FakeTransport()
  ad = _adapter(t)
  a = M.AdbMessage('WRTE', 1, 2, 'aa')
  b = M.AdbMessage('OKAY', 3, 4, 'b')
  s = Z.Sched(preempt=[(p0, t0), (p1, t1)], pick=[k0], max_steps=200)
  ca = s.spawn('wa', _writer(ad, a, e0))
  cb = s.spawn('wb', _writer(ad, b, e1))
  try:
    s.run()
  except Z.Deadlock:
    return False
  reach()
  if ca.exc is not None or cb.exc is not None:
    return False
  ha, hb = list(a.header), list(b.header)
  w = [list(x) if not isinstance(x, str) else x for x in t.writes]
  # once a header has been sent its payload follows immediately, whoever runs in between
  return w == [ha, 'aa', hb, 'b'] or w == [hb, 'b', ha, 'aa']


@cond(timeout=900, split={'t0': range(2), 't1': range(2), 'e0': (False, True)})
def c_two_readers_get_whole_frames(p0: int, t0: int, p1: int, t1: int, k0: int, e0: bool, e1: bool) -> bool:
  """
  pre: 0 <= p0 <= 18 and 0 <= t0 <= 1 and p0 <= p1 <= 18 and 0 <= t1 <= 1
  pre: 0 <= k0 <= 1
  post: _
  """
  a = M.AdbMessage('WRTE', 1, 2, 'aa')
  b = M.AdbMessage('WRTE', 3, 4, 'b')
  t = usbstub.FakeTransport([a.header, 'aa', b.header, 'b'])
  ad = _adapter(t)
  out = []
  s = Z.Sched(preempt=[(p0, t0), (p1, t1)], pick=[k0], max_steps=200)
  ca = s.spawn('ra', _reader(ad, out, e0))
  cb = s.spawn('rb', _reader(ad, out, e1))
  try:
    s.run()
  except Z.Deadlock:
    return False
  reach()
  if ca.exc is not None or cb.exc is not None:
    return False
  return sorted(out) == [('WRTE', 1, 'aa'), ('WRTE', 3, 'b')]


@cond(timeout=120, expect='refute')
def w_writers_contend(p0: int, t0: int) -> bool:
  """
  pre: 0 <= p0 <= 30 and 0 <= t0 <= 1
  post: _
  """
  t = usbstub.FakeTransport()
  ad = _adapter(t)
  a = M.AdbMessage('WRTE', 1, 2, 'aa')
  b = M.AdbMessage('OKAY', 3, 4, 'b')
  s = Z.Sched(preempt=[(p0, t0)], max_steps=200)
  s.spawn('wa', _writer(ad, a, False))
  s.spawn('wb', _writer(ad, b, False))
  s.run()
  # witness: writer B was scheduled while A held the lock between header and payload, and had to wait
  return not any(x == ('wb', 'blocked') for x in s.trace)
