"""C15 - ADB connection lifecycle: CNXN/AUTH handshake, stream ids, open/close.

E1 over the real AdbConnection / AdbStreamTransport / AdbStream against a
message-level scripted device (framing itself is C13's subject).
"""
import collections
import types

import vlib.env  # noqa: F401
from vlib.cond import cond, reach
from vlib import stubs, usbstub

stubs.install_fmtshim(objects_opaque=True)

M = usbstub.load_usb('adb_message')
X = usbstub.load_usb('usb_exceptions')
P = usbstub.load_usb('adb_protocol')

PROPERTY = 'C15'
LEVEL = 'other'
CMDS = ('SYNC', 'CNXN', 'AUTH', 'OPEN', 'OKAY', 'CLSE', 'WRTE')
L = P.STREAM_ID_LIMIT


def FUNCTIONS():
  A, T, S = P.AdbConnection, P.AdbStreamTransport, P.AdbStream
  return [A.connect.__func__, A.__init__, A._make_stream_transport, A._handle_message_for_stream, A.open_stream,
          A.close_stream_transport, A.read_for_stream, T._set_or_check_remote_id, T._send_command,
          T._handle_message, T._read_messages_until_true, T.ensure_opened, T.enqueue_message, T.read, T.close,
          S.read, S.close, M.AdbTransportAdapter.read_until]


BOUNDS = {'connect': 'device reply scripts of <= 3 (quick) / exactly 4 (thorough) entries, each any of the 7 commands (arg0 symbolic, data <= 2 symbolic chars; CNXN banners from a finite list incl. malformed ones) or silence; 0-2 keys; timeout-expired bits symbolic',
          'remote ids': 'non-zero (an OKAY carrying remote id 0 is protocol-invalid; the code then returns a stream with remote id 0: observation)',
          'open_stream': '<= 3 device replies, each any command, addressed to this stream / another live stream / an unknown id, symbolic remote ids; arbitrary id-allocator pre-state',
          'id allocation': 'inductive step: _last_id_used symbolic in [0, 2**16], <= 3 live ids anywhere in [1, 2**16) (symbolic) -> one allocation',
          'refusal via another reader': 'one live stream whose thread is the connection reader, one half-open stream (OPEN sent) refused by a CLSE with a symbolic remote id; arbitrary allocator pre-state',
          'close': 'local close, remote close, double close; buffered data <= 2 WRTE payloads of <= 2 chars'}
STUBS = ['FakeAdapter: message-level transport (write_message records, read_message pops the scripted device reply or raises a USB read timeout); the real read_until is inherited',
         'ScriptTimeout passed as timeout_ms (PolledTimeout.from_millis returns it unchanged): expiry answers are symbolic booleans',
         'queue stub: adb_protocol.queue replaced by a deque-backed Queue whose get() never waits (single-threaded harness)',
         'KeyList: AdbConnection._stream_transport_map replaced by an association list compared by equality (symbolic ids must not be hashed)',
         'fmtshim with opaque objects (message texts not checked)', 'fake signers (sign(d) = tag + d)']
ASSUMPTIONS = ['single-threaded use (thread interleavings of the multiplexer are C14)']
OUTSIDE = ['more than 64 consecutive live ids (the code\'s documented give-up)', 'real RSA signing', 'framing (C13)']


# ------------------------------------------------------------------ stubs ----

class _Empty(Exception):
  pass


class _Queue:
  def __init__(self):
    self.q = collections.deque()

  def put(self, x):
    self.q.append(x)

  def get(self, block=True, timeout=None):
    if not self.q:
      raise _Empty()
    return self.q.popleft()

  def get_nowait(self):
    return self.get(False)


P.queue = types.SimpleNamespace(Queue=_Queue, Empty=_Empty)


class KeyList:
  """Mapping as an association list; keys are compared with ==, never hashed."""

  def __init__(self, items=()):
    self.items_ = list(items)

  def keys(self):
    return [k for k, _ in self.items_]

  def __contains__(self, k):
    for kk, _ in self.items_:
      if kk == k:
        return True
    return False

  def get(self, k, default=None):
    for kk, v in self.items_:
      if kk == k:
        return v
    return default

  def __getitem__(self, k):
    for kk, v in self.items_:
      if kk == k:
        return v
    raise KeyError(k)

  def __setitem__(self, k, v):
    for i, (kk, _) in enumerate(self.items_):
      if kk == k:
        self.items_[i] = (k, v)
        return
    self.items_.append((k, v))

  def __delitem__(self, k):
    for i, (kk, _) in enumerate(self.items_):
      if kk == k:
        del self.items_[i]
        return
    raise KeyError(k)

  def __len__(self):
    return len(self.items_)


class _UsbErr:
  value = -7   # LIBUSB_ERROR_TIMEOUT in the libusb1 stub


SILENCE = 'SILENCE'


class FakeAdapter(M.AdbTransportAdapter):
  def __init__(self, script):
    self.script = list(script)
    self.sent = []

  def write_message(self, message, timeout):
    self.sent.append((message.command, message.arg0, message.arg1, message.data))

  def read_message(self, timeout):
    if not self.script:
      raise X.UsbReadFailedError(_UsbErr(), 'read timed out')
    r = _force(self.script.pop(0))
    if r == SILENCE:
      raise X.UsbReadFailedError(_UsbErr(), 'read timed out')
    return M.AdbMessage(r[0], r[1], r[2], r[3])

  def close(self):
    pass


class Lazy:
  """A device reply built on first use (so that unread replies cost no forks)."""

  def __init__(self, fn):
    self.fn = fn
    self.done = False
    self.val = None

  def get(self):
    if not self.done:
      self.val = self.fn()
      self.done = True
    return self.val


def _force(r):
  return r.get() if type(r) is Lazy else r


class _Holder:
  """Stands for the raw transport handed to connect(); carries the script."""

  def __init__(self, script):
    self.script = script
    self.adapter = None


def _adapter_factory(transport):
  transport.adapter = FakeAdapter(transport.script)
  return transport.adapter


class _AdbMessageNS:
  """adb_protocol's view of the adb_message module with the adapter swapped."""
  AdbMessage = M.AdbMessage
  AdbTransportAdapter = staticmethod(_adapter_factory)
  DebugAdbTransportAdapter = staticmethod(_adapter_factory)


P.adb_message = _AdbMessageNS


class Signer(P.AuthSigner):
  def __init__(self, tag):
    self.tag = tag

  def sign(self, data):
    return self.tag + data

  def get_public_key(self):
    return 'PUB' + self.tag


def _mk_conn(script, last=0, live=()):
  ad = FakeAdapter(script)
  conn = P.AdbConnection(ad, 4096, 'device:SER:banner')
  conn._stream_transport_map = KeyList()
  conn._last_id_used = last
  for lid, rid in live:
    st = P.AdbStreamTransport(conn, lid, _Queue())
    st.remote_id = rid
    st.closed_state = st.ClosedState.OPEN
    st._expecting_okay = False
    conn._stream_transport_map[lid] = st
  return conn, ad


# ------------------------------------------------ (iii) id allocation -------

@cond(timeout=300)
def c_id_allocation_step(last: int, n: int, a: int, b: int, c: int) -> bool:
  """
  pre: 0 <= last <= L
  pre: 0 <= n <= 3
  pre: 1 <= a < L and 1 <= b < L and 1 <= c < L
  pre: a != b and a != c and b != c
  post: _
  """
  live = [a, b, c][:n]
  conn, ad = _mk_conn([], last, [(i, 100) for i in live])
  st = conn._make_stream_transport()
  reach()
  new = st.local_id
  if not (1 <= new < L):            # non-zero and below the id limit
    return False
  for i in live:
    if new == i:                    # distinct from every live id
      return False
  keys = conn._stream_transport_map.keys()
  return len(keys) == n + 1 and conn._stream_transport_map[new] is st and conn._last_id_used == new


@cond(timeout=60, expect='refute')
def w_id_allocation_wrap(last: int, a: int) -> bool:
  """
  pre: 0 <= last <= L
  pre: 1 <= a < L
  post: _
  """
  conn, ad = _mk_conn([], last, [(a, 100)])
  st = conn._make_stream_transport()
  return not (last == L - 1 and a == 1 and st.local_id == 2)   # witness: wrap-around skips the live id 1


# ------------------------------------------------------ (i) connect() -------

_BANNERS = ('device:SER:hello', 'recovery::', 'a:b', '', 'x:y:z:w')


def _reply(kind, a0, a1, d, bi):
  """kind 0..6 = command index, 7 = silence."""
  if kind == 7:
    return SILENCE
  cmd = CMDS[kind]
  if cmd == 'CNXN':
    return (cmd, a0, a1, _BANNERS[bi])
  return (cmd, a0, a1, d)


def _spec_connect(replies, nkeys, exp_main, exp_auth):
  """Specification automaton of the handshake.
  Returns (outcome, sent) where outcome is ('conn', maxdata, banner) or an error class name."""
  sent = [('CNXN', P.ADB_VERSION, P.MAX_ADB_DATA, 'host::%s\0' % P.ADB_BANNER)]
  rs = list(replies)
  em = list(exp_main)

  def read_until(expected, expiry):
    # non-expected packets are ignored until the timeout has expired
    while True:
      if not rs:
        return ('usb', None)
      r = _force(rs.pop(0))
      if r == SILENCE:
        return ('usb', None)
      if r[0] in expected:
        return ('msg', r)
      # the timeout is polled only after a packet that is not the expected one
      expired = expiry.pop(0) if expiry else False
      if expired:
        return ('timeout', None)

  def conn_of(r):
    parts = r[3].split(':', 2)
    if len(parts) != 3:
      return ('AdbProtocolError', None)
    return ('conn', r[2], tuple(parts))

  k, msg = read_until(('AUTH', 'CNXN'), em)
  if k == 'usb':
    return ('UsbReadFailedError', None), sent
  if k == 'timeout':
    return ('AdbTimeoutError', None), sent
  if msg[0] == 'CNXN':
    return conn_of(msg), sent
  if nkeys == 0:
    return ('DeviceAuthError', None), sent
  for i in range(nkeys):
    if msg[1] != 1:       # signs only TOKEN challenges
      return ('AdbProtocolError', None), sent
    sent.append(('AUTH', 2, 0, 'K%d' % i + msg[3]))
    k, msg = read_until(('AUTH', 'CNXN'), em)
    if k == 'usb':
      return ('UsbReadFailedError', None), sent
    if k == 'timeout':
      return ('AdbTimeoutError', None), sent
    if msg[0] == 'CNXN':
      return conn_of(msg), sent
  sent.append(('AUTH', 3, 0, 'PUBK0' + '\0'))     # first public key, once, after all signatures were rejected
  k, msg = read_until(('CNXN',), list(exp_auth))
  if k == 'usb':
    return ('DeviceAuthError', None), sent
  if k == 'timeout':
    return ('AdbTimeoutError', None), sent
  return conn_of(msg), sent


def _connect_body(nkeys, replies, exp_main, exp_auth):
  holder = _Holder(list(replies))
  keys = [Signer('K0'), Signer('K1')][:nkeys]
  try:
    conn = P.AdbConnection.connect(holder, rsa_keys=keys,
                                   timeout_ms=usbstub.ScriptTimeout(list(exp_main)),
                                   auth_timeout_ms=usbstub.ScriptTimeout(list(exp_auth)))
    got = ('conn', conn.maxdata, (conn.systemtype, conn.serial, conn.banner))
  except (X.AdbProtocolError, X.DeviceAuthError, X.AdbTimeoutError, X.UsbReadFailedError) as e:
    got = (type(e).__name__, None)
  (skind, *srest), ssent = _spec_connect(replies, nkeys, exp_main, exp_auth)
  reach()
  sent = holder.adapter.sent
  if len(sent) != len(ssent):
    return False
  for a, b in zip(sent, ssent):
    if not (a[0] == b[0] and a[1] == b[1] and a[2] == b[2] and a[3] == b[3]):
      return False
  if got[0] != skind:
    return False
  if skind == 'conn':
    return got[1] == srest[0] and got[2] == srest[1]
  return True


@cond(timeout=900, split={'nkeys': range(3), 'k0': range(8)})
def c_connect(nkeys: int, n: int,
              k0: int, a0: int, d0: str, k1: int, a1: int, d1: str, k2: int, a2: int, d2: str,
              md: int, b0: int, e0: bool, e1: bool, e2: bool, x0: bool) -> bool:
  """
  pre: 0 <= nkeys <= 2 and 0 <= n <= 3
  pre: 0 <= k0 <= 7 and 0 <= k1 <= 7 and 0 <= k2 <= 7
  pre: 0 <= a0 < 2**32 and 0 <= a1 < 2**32 and 0 <= a2 < 2**32 and 0 <= md < 2**32
  pre: len(d0) <= 1 and len(d1) <= 1 and len(d2) <= 1
  pre: 0 <= b0 < 5
  post: _
  """
  replies = [Lazy(lambda k=k, a=a, d=d: _reply(k, a, md, d, b0)) for k, a, d in ((k0, a0, d0), (k1, a1, d1), (k2, a2, d2))][:n]
  return _connect_body(nkeys, replies, [e0, e1, e2], [x0])


@cond(tiers=('thorough',), timeout=3600, split={'nkeys': range(3), 'k0': range(8), 'k1': range(8)})
def c_connect4(nkeys: int, k0: int, a0: int, d0: str, k1: int, a1: int, d1: str, k2: int, a2: int, d2: str, k3: int, a3: int, d3: str,
               md: int, b0: int, b1: int, e0: bool, e1: bool, e2: bool, e3: bool, x0: bool, x1: bool) -> bool:
  """
  pre: 0 <= nkeys <= 2
  pre: 0 <= k0 <= 7 and 0 <= k1 <= 7 and 0 <= k2 <= 7 and 0 <= k3 <= 7
  pre: 0 <= a0 < 2**32 and 0 <= a1 < 2**32 and 0 <= a2 < 2**32 and 0 <= a3 < 2**32 and 0 <= md < 2**32
  pre: len(d0) <= 2 and len(d1) <= 2 and len(d2) <= 2 and len(d3) <= 2
  pre: 0 <= b0 < 5 and 0 <= b1 < 5
  post: _
  """
  replies = [Lazy(lambda k=k, a=a, d=d, bi=bi: _reply(k, a, md, d, bi)) for k, a, d, bi in
             ((k0, a0, d0, b0), (k1, a1, d1, b1), (k2, a2, d2, b0), (k3, a3, d3, b1))]
  return _connect_body(nkeys, replies, [e0, e1, e2, e3], [x0, x1])


@cond(timeout=120, expect='refute')
def w_connect_two_keys(a0: int, a1: int, d0: str) -> bool:
  """
  pre: 0 <= a0 < 2**32 and 0 <= a1 < 2**32
  pre: len(d0) <= 2
  post: _
  """
  replies = [('AUTH', a0, 0, d0), ('AUTH', a1, 0, 'zz'), ('AUTH', 1, 0, ''), ('CNXN', 0, 256, 'device:S:b')]
  holder = _Holder(list(replies))
  try:
    conn = P.AdbConnection.connect(holder, rsa_keys=[Signer('K0'), Signer('K1')],
                                   timeout_ms=usbstub.ScriptTimeout(), auth_timeout_ms=usbstub.ScriptTimeout())
  except (X.AdbProtocolError, X.DeviceAuthError, X.AdbTimeoutError, X.UsbReadFailedError):
    return True
  return not (len(holder.adapter.sent) == 4 and conn.maxdata == 256 and d0 == 'q')


# ---------------------------------------------------- (ii) open / close ------

def _addr(which, new_id, other_id):
  return (new_id, other_id, 54321)[which]     # this stream / another live stream / unknown id


@cond(timeout=600)
def c_refusal_seen_by_another_reader(last: int, r: int, other_rid: int, d: str, then_open: bool) -> bool:
  """
  pre: 0 <= last <= L
  pre: 0 <= r < 2**32 and 1 <= other_rid < 2**32
  pre: 1 <= len(d) <= 2
  post: _
  """
  # A two-thread schedule, written out sequentially with the real functions: thread B ran the first half of
  # open_stream (id allocated, OPEN sent) and is preempted before it reads; the thread of the live stream OTHER is the
  # connection reader, so IT receives the device's CLSE refusing B's OPEN (and then its own data).  B then resumes:
  # a CLSE reply yields no stream and releases the id.
  OTHER = 7
  new_id = last % L + 1
  if new_id == L:
    new_id = 1
  if new_id == OTHER:
    return True
  conn, ad = _mk_conn([], last, [(OTHER, other_rid)])
  other = conn._stream_transport_map[OTHER]
  tb = conn._make_stream_transport()
  if tb.local_id != new_id:
    return False
  conn.transport.write_message(M.AdbMessage(command='OPEN', arg0=tb.local_id, arg1=0, data='shell:x' + chr(0)), usbstub.ScriptTimeout())
  ad.script = [('CLSE', r, new_id, ''), ('WRTE', other_rid, OTHER, d)]
  got = P.AdbStream('other', other).read(timeout_ms=usbstub.ScriptTimeout())
  opened = tb.ensure_opened(usbstub.ScriptTimeout())     # second half of open_stream, thread B resumed
  reach()
  if got != d or opened:
    return False
  if new_id in conn._stream_transport_map or OTHER not in conn._stream_transport_map:     # B's id released, OTHER untouched
    return False
  clses = [x for x in ad.sent if x[0] == 'CLSE']
  # a stream that never got a remote id has no remote end to CLSE (as in c_open_stream, no answer is demanded for a
  # refused OPEN); what may never happen is more than one CLSE, or a CLSE carrying another stream's id
  if len(clses) > 1 or (clses and clses[0][1] != new_id):
    return False
  if [x for x in ad.sent if x[0] == 'OKAY'] != [('OKAY', OTHER, other_rid, '')]:    # OTHER's WRTE acked once
    return False
  if then_open:
    # the released id does not stay blocked: with the allocator rewound to just before it, it is handed out again
    conn._last_id_used = last
    t2 = conn._make_stream_transport()
    return t2.local_id == new_id
  return True


@cond(timeout=1200, split={'k0': range(8)})
def c_open_stream(last: int, n: int,
                  k0: int, r0: int, w0: int, d0: str, k1: int, r1: int, w1: int, d1: str, k2: int, r2: int, w2: int, d2: str,
                  other_rid: int) -> bool:
  """
  pre: 0 <= last <= L
  pre: 1 <= n <= 3
  pre: 0 <= k0 <= 7 and 0 <= k1 <= 7 and 0 <= k2 <= 7
  pre: 1 <= r0 < 2**32 and 1 <= r1 < 2**32 and 1 <= r2 < 2**32
  pre: 0 <= w0 <= 2 and 0 <= w1 <= 2 and 0 <= w2 <= 2
  pre: len(d0) <= 2 and len(d1) <= 2 and len(d2) <= 2
  pre: 1 <= other_rid < 2**32
  post: _
  """
  OTHER = 7
  new_id = last % L + 1
  if new_id == L:
    new_id = 1                        # wrap-around
  if new_id == OTHER:
    return True                       # keep the other live stream's id distinct from the next allocation
  conn, ad = _mk_conn([], last, [(OTHER, other_rid)])
  script = []
  for k, r, w, d in ((k0, r0, w0, d0), (k1, r1, w1, d1), (k2, r2, w2, d2))[:n]:
    script.append(Lazy(lambda k=k, r=r, w=w, d=d: SILENCE if k == 7 else (CMDS[k], r, _addr(w, new_id, OTHER), d)))
  ad.script = list(script)
  other = conn._stream_transport_map[OTHER]
  try:
    stream = conn.open_stream('shell:x', usbstub.ScriptTimeout())
    got = 'stream' if stream is not None else 'none'
  except X.AdbProtocolError:
    got = 'protocol'
  except X.UsbReadFailedError:
    got = 'usbtimeout'
  except X.AdbTimeoutError:
    got = 'timeout'
  reach()
  # wire: exactly one OPEN, first, carrying the new non-zero local id and the destination
  opens = [s for s in ad.sent if s[0] == 'OPEN']
  if len(opens) != 1 or ad.sent[0] != ('OPEN', new_id, 0, 'shell:x\0'):
    return False
  # specification: scan the device replies in order
  exp = None
  remote = None
  other_alive = True
  for r in script:
    r = _force(r)
    if r == SILENCE:
      exp = 'usbtimeout'
      break
    cmd, a0, a1, d = r
    if cmd not in ('OKAY', 'CLSE', 'WRTE'):
      exp = 'protocol'               # illegal mid-session packet
      break
    if a1 == new_id:
      if cmd == 'OKAY':
        exp = 'stream' if a0 != 0 else 'none-pending'
        remote = a0
      elif cmd == 'CLSE':
        exp = 'none'                 # service unavailable: no stream
      else:
        exp = 'protocol'             # data before OKAY
      break
    # packets for another stream or an unknown id do not decide this open
    if a1 == OTHER and other_alive:
      if cmd == 'CLSE':
        other_alive = False          # the other stream is closed by the device
      elif cmd == 'OKAY' and a0 != other_rid:
        exp = 'protocol'             # remote id of a live stream must not change
        break
  if exp is None:
    exp = 'usbtimeout'
  if exp == 'none-pending':
    # OKAY with remote id 0 leaves the stream half-open: reported as not opened
    return got == 'none'
  if got != exp:
    return False
  if got == 'stream':
    st = conn._stream_transport_map.get(new_id)
    return st is not None and st.remote_id == remote and st.is_open() and not stream.is_closed()
  if got == 'none':
    # a CLSE reply yields no stream and nothing stays in the map
    return new_id not in conn._stream_transport_map
  return True


@cond(timeout=600)
def c_close_paths(remote: int, how: int, buf: int, d0: str, d1: str) -> bool:
  """
  pre: 1 <= remote < 2**32
  pre: 0 <= how <= 2
  pre: 0 <= buf <= 2
  pre: 1 <= len(d0) <= 2 and 1 <= len(d1) <= 2
  post: _
  """
  conn, ad = _mk_conn([('OKAY', remote, 1, '')])
  stream = conn.open_stream('svc', usbstub.ScriptTimeout())
  if stream is None or ad.sent != [('OPEN', 1, 0, 'svc\0')]:
    return False
  del ad.sent[:]
  data = [d0, d1][:buf]
  reach()
  if how == 0:
    # local close: exactly one CLSE(local, remote), id released; closing again sends nothing
    stream.close()
    stream.close()
    if ad.sent != [('CLSE', 1, remote, '')] or 1 in conn._stream_transport_map or not stream.is_closed():
      return False
    try:
      stream.read(timeout_ms=usbstub.ScriptTimeout())
      return False
    except X.AdbStreamClosedError:
      return True
  # remote close, preceded by `buf` WRTE packets
  ad.script = [('WRTE', remote, 1, d) for d in data] + [('CLSE', remote, 1, '')]
  out = []
  closed = False
  for _ in range(4):
    try:
      out.append(stream.read(timeout_ms=usbstub.ScriptTimeout()))
    except X.AdbStreamClosedError:
      closed = True
      break
  if not closed:
    return False
  if how == 2:
    stream.close()      # local close after the remote one: no second CLSE
  acks = [s for s in ad.sent if s[0] == 'OKAY']
  clses = [s for s in ad.sent if s[0] == 'CLSE']
  # every device WRTE acked with OKAY(local, remote); the remote CLSE answered with exactly one CLSE; id released
  if acks != [('OKAY', 1, remote, '')] * len(data) or clses != [('CLSE', 1, remote, '')]:
    return False
  if 1 in conn._stream_transport_map:
    return False
  # reads drained the buffered data (in order) before reporting the stream closed
  return ''.join(out) == ''.join(data)


@cond(timeout=300)
def c_midsession_illegal(k: int, a0: int, a1: int) -> bool:
  """
  pre: 0 <= k <= 3
  pre: 0 <= a0 < 2**32 and 0 <= a1 < 2**32
  post: _
  """
  conn, ad = _mk_conn([('OKAY', 9, 1, '')])
  stream = conn.open_stream('svc', usbstub.ScriptTimeout())
  ad.script = [(('SYNC', 'CNXN', 'AUTH', 'OPEN')[k], a0, a1, '')]
  reach()
  try:
    stream.read(timeout_ms=usbstub.ScriptTimeout())
  except X.AdbProtocolError:
    return True
  return False
