"""C11 - runs are isolated: descriptors are never mutated, derived phases are copies.

E1-a: symbolic derive/decorate histories on shared phase objects and collections, then a
mutation of the derived object; a deep structural snapshot of the original must be
unchanged and no mutable container may be shared.
E1-b: the same Test executed twice with independent symbolic scripts: the record of the
second run equals what the specification interpreter derives from the second script
alone, and the declared tree is unchanged (incl. conditional validators).
"""
import copy
import types

import vlib.env  # noqa: F401
from vlib.cond import cond, reach
from vlib import stubs
from vlib import exe_harness as H

stubs.install_fmtshim(objects_opaque=True)
H.install_sync_threads()
H.quiet()
H.skip_base_type_caches()

import attr
import openhtf as htf
from openhtf.core import base_plugs
from openhtf.core import measurements as MS
from openhtf.core import phase_collections as PC
from openhtf.core import phase_descriptor as PD
from openhtf.core import phase_group as PG
from openhtf.core import test_state as TS
from openhtf.util import data
from openhtf.util import validators as V
from vlib import treecheck as TC
from vlib import trees as T
from vlib import spec_events as SE

PROPERTY = 'C11'
LEVEL = 'other'
KINDS = TC.KINDS
STUBS = H.STUBS + ['fmtshim', 'PhaseRecord.as_base_types returns {} (C10 subject)']


def FUNCTIONS():
  return [PD.PhaseDescriptor.wrap_or_copy.__func__, PD.PhaseDescriptor.with_args, PD.PhaseDescriptor.with_plugs,
          PD.PhaseOptions.__call__, PD.PhaseOptions.format_strings, PD.measures, PD.diagnose, data.attr_copy,
          PC.PhaseSequence.with_args, PC.PhaseSequence.with_plugs, PG.PhaseGroup.with_args, PG.PhaseGroup.with_plugs,
          TS.PhaseState.from_descriptor, TS.TestState.__init__, MS.Measurement.with_args]


BOUNDS = {'derive histories': '<= 2 derive operations chosen by symbolic selectors from {with_args, with_plugs (placeholder substituted), PhaseOptions(...), measures, diagnose, plug, wrap in PhaseSequence / PhaseGroup / Subtest, collection.with_args, collection.with_plugs}, then one mutation of the derived object (options.update, extra_kwargs update, measurements/diagnosers/plugs list append, nodes of a derived collection) on a base phase (named or unnamed) and a base group',
          'execute histories': 'trees 0, 2 and the conditional-validator tree executed twice with independent scripts (one deviating phase each, diagnoser codes)'}
ASSUMPTIONS = ['in-place builder methods of a *shared leaf* Measurement object (m.with_validator(...) on the same object that was handed to two phases) are outside: derive operations copy containers, leaf declarations are shared by design']
OUTSIDE = ['two tests executing concurrently in one process (thread interleavings): not decided here (see DESIGN.md)', 'process-global state shared by design (CONF, the openhtf logger): C19 / C20']


# ------------------------------------------------------------- snapshots --------

_LEAF = (str, int, float, bool, type(None), bytes)


def snap(o, depth=0):
  """Deep structural snapshot (values); functions / classes by identity."""
  if depth > 12:
    return '...'
  if isinstance(o, _LEAF):
    return o
  if isinstance(o, (types.FunctionType, types.BuiltinFunctionType, type, types.MethodType)) or callable(o) and not attr.has(type(o)):
    return ('callable', id(o))
  if isinstance(o, (list, tuple)):
    return (type(o).__name__,) + tuple(snap(x, depth + 1) for x in o)
  if isinstance(o, dict):
    return ('dict',) + tuple((snap(k, depth + 1), snap(v, depth + 1)) for k, v in o.items())
  if isinstance(o, (set, frozenset)):
    return ('set', len(o))
  if attr.has(type(o)):
    out = [type(o).__name__]
    for f in attr.fields(type(o)):
      if f.name in ('_cached', '_cached_dict', 'code_info'):
        continue
      out.append((f.name, snap(getattr(o, f.name), depth + 1)))
    return tuple(out)
  return ('obj', type(o).__name__, id(o))


def containers(o, acc=None, depth=0):
  """ids of mutable containers (lists, dicts, attrs option objects) reachable from o."""
  if acc is None:
    acc = {}
  if depth > 10 or isinstance(o, _LEAF):
    return acc
  if isinstance(o, (list, dict)):
    acc[id(o)] = o
    it = o.values() if isinstance(o, dict) else o
    for x in it:
      containers(x, acc, depth + 1)
  elif isinstance(o, tuple):
    for x in o:
      containers(x, acc, depth + 1)
  elif isinstance(o, PD.PhaseOptions):
    acc[id(o)] = o
  elif attr.has(type(o)) and not isinstance(o, (MS.Measurement, MS.Dimension)):
    for f in attr.fields(type(o)):
      containers(getattr(o, f.name), acc, depth + 1)
  return acc


# --------------------------------------------------------------- fixtures --------

from openhtf import plugs as _plugs_mod
_DuplicatePlugError = getattr(_plugs_mod, 'DuplicatePlugError', None) or getattr(base_plugs, 'DuplicatePlugError')


class BaseDev(base_plugs.BasePlug):
  pass


class SubDev(BaseDev):
  pass


class OtherPlug(base_plugs.BasePlug):
  pass


_DIAG = H.make_phase_diagnoser('dx')


def _fresh_base(named):
  def work(test, dev, arg=1):
    return None
  ph = htf.plug(dev=base_plugs.PlugPlaceholder(BaseDev))(work)
  ph = PD.measures(MS.Measurement('m_{arg}').in_range(0, 10))(ph)
  if named:
    ph = PD.PhaseOptions(name='work_{arg}')(ph)
  return ph


def _derive(o, op):
  try:
    return _derive_(o, op)
  except (base_plugs.InvalidPlugError, MS.DuplicateNameError, _DuplicatePlugError):
    return o        # refused operations (already substituted placeholder, duplicate names) derive nothing


def _derive_(o, op):
  """One derive operation on a phase or collection."""
  if isinstance(o, PD.PhaseDescriptor):
    if op == 0:
      return o.with_args(arg=7)
    if op == 1:
      return o.with_plugs(dev=SubDev)
    if op == 2:
      return PD.PhaseOptions(timeout_s=5)(o)
    if op == 3:
      return PD.measures(MS.Measurement('extra'))(o)
    if op == 4:
      return PD.diagnose(_DIAG)(o)
    if op == 5:
      return htf.plug(other=OtherPlug)(o)
    if op == 6:
      return PC.PhaseSequence((o,))
    if op == 7:
      return PG.PhaseGroup(setup=[o], main=[o], teardown=[o])
    return PC.Subtest('st', o)
  # collections
  if op in (0, 2, 3, 4):
    return o.with_args(arg=7)
  if op in (1, 5):
    return o.with_plugs(dev=SubDev)
  if op == 6:
    return PC.PhaseSequence((o,))
  if op == 7:
    return PG.PhaseGroup(main=[o])
  return PC.Subtest('st2', o)


def _first_phase(o):
  if isinstance(o, PD.PhaseDescriptor):
    return o
  return next(iter(o.all_phases()))


def _mutate(o, how):
  ph = _first_phase(o)
  if how == 0:
    ph.options.update(timeout_s=99, run_if=lambda: False)
  elif how == 1:
    ph.extra_kwargs['arg'] = 12345
  elif how == 2:
    ph.measurements.append(MS.Measurement('appended'))
  elif how == 3:
    ph.diagnosers.append(_DIAG)
  elif how == 4:
    ph.plugs.append(base_plugs.PhasePlug('zz', OtherPlug))
  else:
    ph.options.name = 'renamed'


@cond(timeout=900, split={'op1': range(9)})
def c_derived_objects_are_copies(named: bool, op1: int, n: int, op2: int, how: int) -> bool:
  """
  pre: 0 <= op1 <= 8 and 0 <= op2 <= 8
  pre: 1 <= n <= 2
  pre: 0 <= how <= 5
  post: _
  """
  base = _fresh_base(named)
  before = snap(base)
  d1 = _derive(base, op1)
  d = d1
  if n == 2:
    before1 = snap(d1)
    d = _derive(d1, op2)
  reach()
  if d is base:
    return snap(base) == before       # an operation that changes nothing may return the object itself
  # derived objects are copies: no mutable container is shared with the original
  shared = set(containers(base)) & set(containers(d))
  if shared:
    return False
  _mutate(d, how)
  if snap(base) != before:
    return False
  if n == 2 and d is not d1:
    # ... nor with the intermediate object it was derived from
    if set(containers(d1)) & set(containers(d)):
      return False
    # (d1 wraps `base` for the collection operations: its own snapshot must be unchanged as well)
    return snap(d1) == before1
  return True


@cond(timeout=120, expect='refute')
def w_derived_with_plugs(how: int) -> bool:
  """
  pre: 0 <= how <= 5
  post: _
  """
  base = _fresh_base(False)
  d = base.with_plugs(dev=SubDev)
  _mutate(d, how)
  return not (how == 0 and d.options.timeout_s == 99 and base.options.timeout_s is None and d.plugs[0].cls is SubDev)


# ------------------------------------------------------- execute histories -------

CV_TREE = [T.PDg(0), ('phase', 'p1', {'measured': True, 'cv': True})]


def _cv_phase():
  def body(test):
    return H.run_body('p1', test, True)
  body.__name__ = 'p1'
  ph = PD.PhaseOptions(name='p1')(PD.PhaseDescriptor.wrap_or_copy(body))
  m = MS.Measurement('p1_m').in_range(0, 10, 2, 8).validate_on({H.DR.A: V.InRange(0, 3)})
  return PD.measures(m)(ph)


_CV_TEST = H.make_test(T.build(T.PDg(0)), _cv_phase())
_CV_TEST.configure(failure_exceptions=[H.ListedFailure])
_EXE_TREES = {0: (T.ALL[0], None), 2: (T.ALL[2], None), 99: (CV_TREE, _CV_TEST)}


def _run_once(ti, i1, v1, g0, mval_kind):
  tree, test = _EXE_TREES[ti]
  if test is None:
    test = TC.test_for(ti)
  H.SCRIPT.reset()
  S = H.SCRIPT
  S.bad_index = 1
  for node in T.phases_of(tree):
    k = int(node[1][1:])
    kind = KINDS[v1] if k == i1 else KINDS[0]
    S.beh[node[1]] = [kind[0], 0]
    S.meas[node[1]] = [TC._meas(kind[1] if k == i1 else mval_kind)]
    if node[2].get('diag'):
      S.diag[node[2]['diag']] = [g0]
  ex, rec, escaped = H.run_executor(test)
  r = TC.Result()
  r.rec, r.escaped, r.log = rec, escaped, list(S.log)
  spec = SE.Spec(S)
  r.spec_outcome = spec.run(tree)
  r.spec = spec
  return r, test


def _two_runs(ti, i1, v1, g1, m1, i2, v2, g2, m2):
  H.reset_globals()
  tree, test = _EXE_TREES[ti]
  test = test or TC.test_for(ti)
  before = snap(test.descriptor.phase_sequence)
  r1, _ = _run_once(ti, i1, v1, g1, m1)
  ok1 = TC.same_execution(r1) and r1.rec.outcome.name == r1.spec_outcome
  mid = snap(test.descriptor.phase_sequence)
  r2, _ = _run_once(ti, i2, v2, g2, m2)
  reach()
  # executing a test never mutates what it was declared with
  if mid != before or snap(test.descriptor.phase_sequence) != before:
    return False
  # every run starts from pristine state: the second record is what its own script prescribes
  return ok1 and TC.same_execution(r2) and r2.rec.outcome.name == r2.spec_outcome and r2.rec is not r1.rec


_V2Q = (0, 6)     # second run in the quick tier: nominal, or a failing measurement, on the phase that deviated in run 1


@cond(timeout=900, split={'ti': (0, 2, 99), 'v1': range(13)})
def c_second_run_depends_only_on_itself(ti: int, i1: int, v1: int, g1: int, m1: int, w2: int, g2: int, m2: int) -> bool:
  """
  pre: ti in (0, 2, 99)
  pre: 0 <= i1 <= 2 and 0 <= v1 <= 12 and 0 <= g1 <= 4 and m1 in (0, 3)
  pre: 0 <= w2 <= 1 and 0 <= g2 <= 3 and m2 in (0, 3)
  post: _
  """
  return _two_runs(ti, i1, v1, g1, m1, i1, _V2Q[w2], g2, m2)


@cond(tiers=('thorough',), timeout=3000, split={'ti': (99,), 'v1': range(13), 'v2': range(7)})
def c_second_run_full(ti: int, i1: int, v1: int, g1: int, m1: int, i2: int, v2: int, g2: int, m2: int) -> bool:
  """
  pre: ti in (0, 99)
  pre: 0 <= i1 <= 2 and 0 <= v1 <= 12 and 0 <= g1 <= 4 and m1 in (0, 3)
  pre: 0 <= i2 <= 2 and 0 <= v2 <= 6 and 0 <= g2 <= 4 and m2 in (0, 3)
  post: _
  """
  return _two_runs(ti, i1, v1, g1, m1, i2, v2, g2, m2)
