"""C04 - operator abort: run ends ABORTED, nothing new starts, no deadlock.
(also decides the abort part of C03: group teardown under a single abort)

E3: TestExecutor.abort / _stop_phase_executor / _thread_proc / _execute_* and
PhaseExecutor.execute_phase / _execute_phase_once / stop / reset_stop and the phase
thread (KillableThread.run / kill, PhaseExecutorThread.join_or_die / _thread_proc) are
sequentialised from their live source; executor, phase threads and the aborting thread
run as coroutines on cooperative primitives with virtual time; the moment(s) of the
abort(s), one extra preemption and the body duration classes are symbolic.
"""
import copy
import logging
import types

import vlib.env  # noqa: F401
from vlib.cond import cond, reach, is_known, known_hit, pin, untraced
from vlib import htfstub
from vlib.seqz import core as Z
from vlib.seqz import prims

import openhtf as htf
from openhtf import plugs as plugs_mod
from openhtf.core import phase_descriptor as PD
from openhtf.core import phase_executor as PE
from openhtf.core import phase_group as PG
from openhtf.core import test_executor as TE
from openhtf.core import test_record as TR
from openhtf.core import test_state as TS
from openhtf.util import threads as TH
from openhtf.util import logs as htf_logs

htfstub.install_clock(TS, TR)
htfstub.quiet_logging()

PROPERTY = 'C04'
LEVEL = 'model_checking'
EXPLANATION = ('bounded model checking of the sequentialised real executor/abort code on a virtual clock: every abort moment '
               '(statement granularity), one extra preemption and the body duration classes are symbolic; CrossHair/z3 exhausts the paths. The schedule/duration variables are pinned by bisection (O(log n) solver decisions per path) and the pinned schedule then runs natively on the sequentialised code: z3 partitions and exhausts the domain under the preconditions, it does not reason symbolically inside a path.')
_NULL = logging.getLogger('verif.null')
_NULL.addHandler(logging.NullHandler())
_NULL.propagate = False
TTE = TH.ThreadTerminationError
LOG = []

# ---------------------------------------------------------------- phase thread ---

_G = {'threading': prims.threading, 'time': prims.time}


class CoPhaseThread(prims.Thread):
  """Cooperative PhaseExecutorThread: real run/kill/join_or_die/_thread_proc/_thread_exception."""

  def __init__(self, phase_desc, test_state, run_with_profiling, subtest_rec):
    prims.Thread.__init__(self, name='phase:' + phase_desc.name)
    self._running_lock = prims.Lock()
    self._killed = prims.Event()
    self._profiler = None
    self._logger = _NULL
    self._phase_desc = _CoDesc(phase_desc)
    self._test_state = test_state
    self._subtest_rec = subtest_rec
    self._phase_execution_outcome = None

  def _log_exception(self, *a):
    return None

  def start(self):
    LOG.append(('thread-start', self._phase_desc.name))
    return prims.Thread.start(self)

  def _thread_finished(self):
    LOG.append(('thread-finished', self._phase_desc.name))

  def async_raise(self, exc_type):
    LOG.append(('async-raise', self._phase_desc.name))
    if self.co is not None:
      Z.SCHED[0].throw_into(self.co, exc_type())

  def get_profile_stats(self):
    return None


for _n in ('run', 'kill', '_is_thread_proc_running'):
  setattr(CoPhaseThread, _n, Z.sequentialize(getattr(TH.KillableThread, _n), _G))
for _n in ('join_or_die', '_thread_proc', '_thread_exception'):
  setattr(CoPhaseThread, _n, Z.sequentialize(getattr(PE.PhaseExecutorThread, _n), _G))

DUR = {}      # phase name -> duration class: 0 prompt, 1 long (killable), 2 stubborn (ignores the first kill)


class _CoDesc:
  def __init__(self, desc):
    self.desc = desc
    self.name = desc.name
    self.options = desc.options

  def __call__(self, test_state):
    return self._run()

  def _run(self):
    name = self.name
    LOG.append(('body-start', name))
    try:
      d = DUR.get(name, 0)
      yield ('line', 'body')
      if d:
        try:
          yield from Z.co(prims.time.sleep, 10)
        except TTE:
          if d != 2:
            raise
          LOG.append(('body-ignored-kill', name))
          yield from Z.co(prims.time.sleep, 10)
    finally:
      LOG.append(('body-end', name))
    if name == 'r1' and LOG.count(('body-start', 'r1')) < 3:   # P3: the phase asks twice to be repeated
      return PD.PhaseResult.REPEAT
    return None
  Z.mark(_run)


# ------------------------------------------------------------- phase executor ---

_PE_G = dict(_G)
_PE_G['PhaseExecutorThread'] = CoPhaseThread
SeqPhaseExecutor, _O1 = Z.encode_subclass(PE.PhaseExecutor, ['execute_phase', '_execute_phase_once', 'stop', 'reset_stop'], _PE_G)
_pe_init = PE.PhaseExecutor.__init__


class _StopFlag(prims.Event):
  def clear(self):
    LOG.append(('stop-flag-cleared',))
    prims.Event.clear(self)


def _seq_pe_init(self, test_state):
  _pe_init(self, test_state)
  self._current_phase_thread_lock = prims.Lock()
  self._stopping = _StopFlag()


SeqPhaseExecutor.__init__ = _seq_pe_init

# --------------------------------------------------------------- test executor ---

_PEMOD = types.SimpleNamespace(**{k: getattr(PE, k) for k in dir(PE) if not k.startswith('__')})
_PEMOD.PhaseExecutor = SeqPhaseExecutor
_TE_G = dict(_G)
_TE_G['phase_executor'] = _PEMOD
_TE_NAMES = ['abort', '_stop_phase_executor', '_thread_proc', '_execute_test_teardown', '_execute_phase', '_execute_sequence',
             '_execute_abortable_sequence', '_execute_teardown_sequence', '_execute_phase_group', '_execute_node']
SeqTestExecutor, _O2 = Z.encode_subclass(TE.TestExecutor, _TE_NAMES, _TE_G)


def FUNCTIONS():
  return [getattr(TH.KillableThread, n) for n in ('run', 'kill', '_is_thread_proc_running')] + \
      [getattr(PE.PhaseExecutorThread, n) for n in ('join_or_die', '_thread_proc', '_thread_exception')] + list(_O1) + list(_O2)


BOUNDS = {'programs': 'P0: one main phase; P1: PhaseGroup(setup [s], main [m1, m2], teardown [t1, t2]) followed by phase `after`; P2: PhaseGroup(main [m1], teardown [t1, PhaseGroup(setup [t2], main [t3], teardown [t4])]); P3 (thorough tier): a phase that returns REPEAT twice (three invocations), then phase m1',
          'aborts': 'the first abort starts at a symbolic global step 0..335 (runs are <= ~310 steps: every statement of the run is a candidate, plus abort after the run finished); optional second abort 0..60 (quick) / 0..90 (thorough) steps later',
          'schedule': 'one additional preemption within 25 steps after the abort start (executor <-> aborter); otherwise a thread runs until it blocks',
          'bodies': 'main phase m1 and teardown phase t1 (t2 too under two aborts): prompt, long-running but killable, or ignoring the first kill (abandoned after cancel_timeout_s); quick tier: (prompt, prompt) and (killable, killable) for one abort, (killable, prompt) and (killable, killable) for two; thorough: all nine / five combinations'}
STUBS = ['cooperative primitives + virtual time (vlib/seqz)', 'async_raise delivers at the next step of the target coroutine',
         'phase bodies are coroutines (PhaseDescriptor.__call__ / plug injection bypassed)', 'TestState/PlugManager/records are the real objects, called atomically',
         'logging disabled; FakeClock for record timestamps']
ASSUMPTIONS = ['preemption only between statements of the encoded functions; non-encoded callees (TestState.*, running_phase_context, PhaseState.finalize) are atomic',
               'ABORTED is demanded when the abort flag was set before the plug teardown of the finalization returned (the outcome is chosen after it); an abort that arrives later finds a finished test']
OUTSIDE = ['repeat programs in the quick tier (P3 is thorough-only); subtest programs', 'the SIGINT handler nested on the thread that executes Test.execute (D6 observation) and Test.abort_from_sig_int locking', 'more than two aborts',
           'real-thread replay of counterexamples (replay is in the sequentialised model)', 'schedules inside PlugManager.tear_down_plugs beyond one preemption point at its start (the abort lands before it, while it is in progress, or after it; C08 covers its faults)']


def _phase(name, **opts):
  def body(test):
    return None
  body.__name__ = name
  return PD.PhaseOptions(name=name, **opts)(PD.PhaseDescriptor.wrap_or_copy(body))


P_MAIN = _phase('m1')
PROG = {
    0: [_phase('m1')],
    1: [PG.PhaseGroup(setup=[_phase('s')], main=[_phase('m1'), _phase('m2')], teardown=[_phase('t1'), _phase('t2')]), _phase('after')],
    # a group that is itself a teardown node of an entered group (a reusable "power down" group)
    2: [PG.PhaseGroup(main=[_phase('m1')], teardown=[_phase('t1'), PG.PhaseGroup(setup=[_phase('t2')], main=[_phase('t3')], teardown=[_phase('t4')])])],
    # a phase that is re-invoked (REPEAT, limit 3), then an ordinary one: "invoked or re-invoked" after the abort returned
    3: [_phase('r1', repeat_limit=5), _phase('m1')],
}
TESTS = {k: htf.Test(*v) for k, v in PROG.items()}
TEARDOWN_PHASES = ('t1', 't2', 't3', 't4')


class _LoggingEvent(prims.Event):
  def __init__(self, tag):
    prims.Event.__init__(self)
    self.tag = tag

  def set(self):
    if not self.flag:
      LOG.append((self.tag,))
    prims.Event.set(self)


def _executor_co(ex):
  try:
    yield from Z.co(ex._thread_proc)
  finally:
    LOG.append(('executor-done',))


def _aborter(ex, k, go):
  # dormant until the scheduler fires `go` at the chosen global step (or, if the run is over
  # before that step, long after everything finished)
  yield from Z.co(go.wait, 10 ** 6)
  LOG.append(('abort-call', k))
  yield from Z.co(ex.abort)
  LOG.append(('abort-return', k))


def _run(prog, p_abort, p_abort2, durs, preempt):
  """p_abort: global step at which the (first) abort starts; p_abort2: same for a second abort (or -1)."""
  del LOG[:]
  DUR.clear()
  DUR.update(durs)
  htfstub.reset_clock()
  for h in list(logging.getLogger(htf_logs.LOGGER_PREFIX).handlers):
    if isinstance(h, htf_logs.RecordHandler):
      logging.getLogger(htf_logs.LOGGER_PREFIX).removeHandler(h)
  test = TESTS[prog]
  ex = SeqTestExecutor(test.descriptor, 'uid:c04', None, test._test_options, False)
  ex._lock = prims.Lock()
  ex._abort = _LoggingEvent('abort-flag-set')
  ex._full_abort = prims.Event()
  ex._teardown_phases_lock = prims.RLock()
  orig_td = plugs_mod.PlugManager.tear_down_plugs

  def logged_td(self):
    LOG.append(('final-teardown-begin',))
    yield ('line', 'plug-teardown')      # plug tearDown in progress: an abort may land here ("during finalization")
    try:
      return orig_td(self)
    finally:
      LOG.append(('final-teardown-end',))
  Z.mark(logged_td)
  plugs_mod.PlugManager.tear_down_plugs = logged_td
  pre = [(p_abort, 1)] + list(preempt)
  if p_abort2 >= 0:
    pre.append((p_abort2, 2))
  s = Z.Sched(preempt=pre, max_steps=2500)
  go1, go2 = prims.Event(), prims.Event()
  s.spawn('executor', _executor_co(ex))
  s.spawn('aborter', _aborter(ex, 1, go1))
  s.hooks[p_abort] = go1.set
  if p_abort2 >= 0:
    s.spawn('aborter2', _aborter(ex, 2, go2))
    if p_abort2 == p_abort:
      s.hooks[p_abort] = lambda: (go1.set(), go2.set())
    else:
      s.hooks[p_abort2] = go2.set
  try:
    s.run()
    dead = False
  except Z.Deadlock:
    dead = True
  finally:
    plugs_mod.PlugManager.tear_down_plugs = orig_td
    try:
      if ex.test_state:
        ex.test_state.close()
    except Exception:
      pass
  return ex, s, dead


REASON = ['']


def _fail(why):
  REASON[0] = why
  return False


def _teardown_clause(prog, rec):
  """C03/C04 (single abort): every teardown node of an entered group runs exactly once, in order, after main."""
  starts = [e[1] for e in LOG if e[0] == 'body-start']
  if prog == 1:
    s_rec = [p for p in rec.phases if p.name == 's']
    entered = bool(s_rec) and s_rec[0].outcome is TR.PhaseOutcome.PASS
    td = ['t1', 't2']
    if not entered and ('t1' in starts or 'm1' in starts):
      return 'main/teardown without completed setup'
  else:
    # P2 has no setup: the group counts as entered once its main sequence was reached, which the log
    # shows as m1's thread having been started (an abort before that may legitimately skip the group)
    entered = ('thread-start', 'm1') in LOG
    td = ['t1', 't2', 't3', 't4']
  if entered:
    for t in td:
      if starts.count(t) != 1:
        return 'teardown nodes ran %r' % starts          # every teardown node exactly once
    if 'm1' in starts and starts.index(td[0]) < starts.index('m1'):
      return 'teardown before main'
    if [x for x in starts if x in td] != td:
      return 'teardown order %r' % starts
    if 'final-teardown-begin' in [e[0] for e in LOG]:
      i_final = [e[0] for e in LOG].index('final-teardown-begin')
      if any(e[0] == 'body-start' and i > i_final for i, e in enumerate(LOG)):
        return 'phase after plug teardown'
  return ''


def teardown_under_single_abort(prog, pa, dm, dt, p1, t1):
  """Entry point for props/C03.py: only C03's clause is judged (plus termination)."""
  durs = {'m1': dm, 't1': dt}
  ex, s, dead = _run(prog, pa, -1, durs, [(p1, t1)])
  reach()
  if dead:
    return False
  for c in s.cos:
    if c.name in ('executor', 'aborter') and (c.alive or c.exc is not None):
      return False
  return not _teardown_clause(prog, ex.test_state.test_record)


def _monitor(ex, s, dead, prog, second_delay, durs):
  REASON[0] = ''
  if dead:
    return _fail('deadlock')                       # under no interleaving does the executor deadlock
  for c in s.cos:
    if c.name in ('executor', 'aborter', 'aborter2') and (c.alive or c.exc is not None):
      return _fail('%s did not finish cleanly: %r' % (c.name, c.exc))   # execute() / abort() return
  names = [e[0] for e in LOG]
  rec = ex.test_state.test_record
  idx_abort_call = LOG.index(('abort-call', 1))
  idx_abort_ret = LOG.index(('abort-return', 1))
  idx_final = names.index('final-teardown-begin') if 'final-teardown-begin' in names else len(LOG)
  idx_done = names.index('executor-done')
  idx_flag0 = names.index('abort-flag-set') if 'abort-flag-set' in names else len(LOG)
  both = ('abort-call', 2) in LOG
  # "second abort": an abort that finds the test already marked aborted (it takes the forced-stop path).
  # An abort *called* after the flag was set must take it; two calls that overlap before the flag is
  # set are concurrent and linearise either way (both first, or one of them second).
  forced = ex._full_abort.is_set()
  if both and max(LOG.index(('abort-call', 1)), LOG.index(('abort-call', 2))) > idx_flag0 and not forced:
    return _fail('an abort called after the test was marked aborted did not force the stop')
  if forced and not both:
    return _fail('forced stop without a second abort')
  two = both and forced
  if both:
    idx_abort_call = min(idx_abort_call, LOG.index(('abort-call', 2)))
    idx_abort_ret = min(idx_abort_ret, LOG.index(('abort-return', 2)))
  d13 = None          # the one phase start excused by known finding D13
  # (b) once the abort call has returned no setup/main phase body is invoked
  for i, e in enumerate(LOG):
    if e[0] == 'body-start' and e[1] not in TEARDOWN_PHASES and i > idx_abort_ret:
      # classified: the abort ran to completion before this phase's thread was registered and the
      # executor had already passed its abort check (finding D13, reproduced on real threads by
      # findings/D13_abort_lost_before_phase_start.py)
      i_first = min(j for j, x in enumerate(LOG) if x[0] == 'body-start' and j > idx_abort_ret)
      # the first phase started after the abort returned, and its own re-invocations (REPEAT): the repeat loop of
      # PhaseExecutor.execute_phase only consults the withdrawn stop flag, so the lost abort stays lost for the whole call
      first_after = (i == i_first) or (e[1] == LOG[i_first][1] and d13 is not None and
                                       not any(x[0] == 'body-start' and x[1] != e[1] for x in LOG[i_first:i]))
      # D13's mechanism: the abort's stop request was already withdrawn (reset_stop) when the executor
      # checked it and started this phase's thread.  A thread started *before* that is not excused.
      i_start = max([j for j, x in enumerate(LOG[:i]) if x == ('thread-start', e[1])] or [-1])
      cleared_before_start = any(x == ('stop-flag-cleared',) for x in LOG[:i_start]) if i_start >= 0 else False
      if first_after and cleared_before_start and ('async-raise', e[1]) not in LOG[:i] and is_known('C04', 'D13-abort-lost-before-phase-start'):
        known_hit('D13-abort-lost-before-phase-start')
        d13 = i
        continue
      return _fail('setup/main body %s started after abort returned' % e[1])
    if e[0] == 'body-start' and i > idx_done:
      return _fail('body started after finalisation')          # (f)
  # (g) a killable body that was running when abort was called is asked to terminate
  open_bodies = []
  for e in LOG[:idx_abort_call]:
    if e[0] == 'body-start':
      open_bodies.append(e[1])
    elif e[0] == 'body-end' and e[1] in open_bodies:
      open_bodies.remove(e[1])
  for name in open_bodies:
    if name not in TEARDOWN_PHASES and durs.get(name, 0) == 1 and ('async-raise', name) not in LOG:
      return _fail('running body %s was not asked to terminate' % name)
  # (e) never two phase bodies of the test at once (an abandoned stubborn body is exempt)
  running = []
  for e in LOG:
    if e[0] == 'body-start':
      if any(durs.get(r, 0) != 2 for r in running):
        return _fail('two bodies at once: %s while %r' % (e[1], running))
      running.append(e[1])
    elif e[0] == 'body-end' and e[1] in running:
      running.remove(e[1])
  # (d) outcome ABORTED (never PASS) when the test was marked aborted before the plug teardown of the
  # finalization returned: the outcome is chosen after it, so an abort that arrives while plugs are being
  # torn down ("during finalization") still yields ABORTED.  Later aborts find a finished test.
  if rec.outcome is None:
    return _fail('no outcome')
  idx_flag = names.index('abort-flag-set') if 'abort-flag-set' in names else len(LOG)
  idx_final_end = names.index('final-teardown-end') if 'final-teardown-end' in names else len(LOG)
  if idx_flag < idx_final_end and rec.outcome is not TR.Outcome.ABORTED:
    return _fail('outcome %s although the abort was registered before plug teardown finished' % rec.outcome)
  # (c) teardown nodes of an entered group still run under a single abort
  starts = [e[1] for e in LOG if e[0] == 'body-start']
  if prog in (1, 2):
    if not two:
      why = _teardown_clause(prog, rec)
      if why:
        return _fail(why)
    if two and ('abort-return', 2) in LOG and ('abort-return', 1) in LOG:
      # a second abort cancels the running teardown phase and skips the remaining ones
      i2 = max(LOG.index(('abort-return', 2)), LOG.index(('abort-return', 1)))
      later = [i for i, e in enumerate(LOG) if e[0] == 'body-start' and i > i2 and i != d13]
      if later:
        # same window as D13, for the second abort: the phase that was about to start when the abort
        # completed (no thread registered yet) still starts; nothing after it may start
        nm = LOG[later[0]][1]
        i_start = max([j for j, x in enumerate(LOG[:later[0]]) if x == ('thread-start', nm)] or [-1])
        cleared = any(x == ('stop-flag-cleared',) for x in LOG[:i_start]) if i_start >= 0 else False
        if len(later) == 1 and cleared and ('async-raise', nm) not in LOG[:later[0]] and \
           is_known('C04', 'D13-abort-lost-before-phase-start'):
          known_hit('D13-abort-lost-before-phase-start')
        else:
          return _fail('%s started after the second abort returned' % nm)
  return True


_DT = tuple((a, b) for a in range(3) for b in range(3))   # (main, teardown) duration classes
_DQ = (0, 4)                                              # quick tier: (0,0) and (1,1); thorough: all nine
_PA_BLOCK = 56                                           # abort positions are split into blocks of this many steps


def _single(prog, pa, dm, dt, p1, t1):
  durs = {'m1': dm, 't1': dt}
  ex, s, dead = _run(prog, pa, -1, durs, [(p1, t1)])
  reach()
  return _monitor(ex, s, dead, prog, -1, durs)


@cond(timeout=1500, split={'prog': range(3), 'di': _DQ, 'pb': range(6)},
      split_thorough={'prog': range(4), 'di': range(len(_DT)), 'pb': range(6)}, timeout_thorough=3000)
def c_single_abort(prog: int, pb: int, pa: int, di: int, k1: int, t1: int) -> bool:
  """
  pre: 0 <= prog <= 3 and 0 <= pb <= 5 and 0 <= di <= 8
  pre: 0 <= pa < _PA_BLOCK
  pre: 0 <= k1 <= 25 and 0 <= t1 <= 1
  post: _
  """
  # the abort starts at global step pb*56+pa (every statement of the run is a candidate); one more
  # preemption k1 steps later (k1 = 0: none) switches between executor (0) and aborter (1)
  prog, pb, pa, di, k1, t1 = pin(prog, 0, 3), pin(pb, 0, 5), pin(pa, 0, _PA_BLOCK - 1), pin(di, 0, 8), pin(k1, 0, 25), pin(t1, 0, 1)
  dm, dt = _DT[di]
  pa = pb * _PA_BLOCK + pa
  return untraced(_single, prog, pa, dm, dt, pa + k1, t1)


def _double(pa, gap, dm, dt):
  durs = {'m1': dm, 't1': dt, 't2': dt}
  ex, s, dead = _run(1, pa, pa + gap, durs, [])
  reach()
  return _monitor(ex, s, dead, 1, gap, durs)


@cond(timeout=1500, split={'di': (3, 4), 'pb': range(6), 'gmax': (60,)},
      split_thorough={'di': (0, 3, 4, 5, 7), 'pb': range(6), 'gmax': (90,)}, timeout_thorough=3000)
def c_double_abort(pb: int, pa: int, gap: int, gmax: int, di: int) -> bool:
  """
  pre: 0 <= pb <= 5 and 0 <= pa < _PA_BLOCK and 0 <= di <= 8
  pre: 0 <= gap <= gmax and gmax in (60, 90)
  post: _
  """
  pb, pa, gap, di = pin(pb, 0, 5), pin(pa, 0, _PA_BLOCK - 1), pin(gap, 0, 120), pin(di, 0, 8)
  dm, dt = _DT[di]
  return untraced(_double, pb * _PA_BLOCK + pa, gap, dm, dt)


def _witness(pa):
  durs = {'m1': 1}
  ex, s, dead = _run(1, pa, -1, durs, [])
  starts = [e[1] for e in LOG if e[0] == 'body-start']
  killed = ('async-raise', 'm1') in LOG
  return not (killed and starts == ['s', 'm1', 't1', 't2'] and ex.test_state.test_record.outcome is TR.Outcome.ABORTED)


@cond(timeout=300, expect='refute')
def w_abort_during_main(pa: int) -> bool:
  """
  pre: 0 <= pa <= 330
  post: _
  """
  return untraced(_witness, pin(pa, 0, 330))
