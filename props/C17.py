"""C17 - file output is atomic: never a truncated record at the destination.

E1 over the real OutputToFile / OutputToJSON / Atomic / atomic_write on an
in-memory file-system model: the fault kind and index and the crash point (FS
operation after which the process is dead) are symbolic.
"""
import vlib.env  # noqa: F401
from vlib.cond import cond, reach
from vlib import memfs

from openhtf.core import test_record
from openhtf.output import callbacks as CB
from openhtf.output.callbacks import json_factory as JF
from openhtf.util import atomic_write as AW

PROPERTY = 'C17'
LEVEL = 'fault_enumeration'


def FUNCTIONS():
  return [CB.Atomic.__init__, CB.Atomic.write, CB.Atomic.close, CB.OutputToFile.__call__,
          CB.OutputToFile.open_output_file, CB.OutputToFile.create_file_name, CB.OutputToFile.open_file,
          CB.OutputToFile.serialize_test_record, JF.OutputToJSON.serialize_test_record, AW.atomic_write]


BOUNDS = {'serializer': 'scripted generator of <= 3 chunks (raising after k chunks) and the real OutputToJSON / pickle serializers on a small record',
          'faults': 'serializer raises after k chunks | k-th write raises | close/flush raises | none, k in 0..3',
          'crash point': 'symbolic index over the numbered FS operations (create, flush, rename, remove, fsync, truncate, copy-data); after it nothing reaches the disk',
          'destination': 'initially absent or holding an old complete record',
          'histories': 'one run; and two runs to the same destination where the first (longer record) dies at a symbolic FS operation and the second runs fault-free on whatever the first left on the disk',
          'file name patterns': "'{dut_id}.{metadata[test_name]}.json', '%(dut_id)s.%(station_id)s', callable"}
STUBS = ['MemFS (vlib/memfs.py): tempfile.NamedTemporaryFile (always a fresh name, as O_EXCL guarantees), open, os.open/os.fdopen (O_CREAT/O_EXCL/O_TRUNC/O_APPEND, in-place overwrite otherwise), shutil.move/copyfile, os.rename/replace/remove/fsync/stat replaced inside callbacks and atomic_write; buffered writes reach the disk on flush/close; rename/move atomic (same file system); copyfile is truncate+write']
ASSUMPTIONS = ['staging directory and destination are on the same file system (as the statement says)',
               'the kernel performs rename atomically and does not reorder the numbered operations']
OUTSIDE = ['file-system primitives MemFS does not model (their use makes the check INCONCLUSIVE, exit 2, not a violation)', 'a real kernel / power loss semantics (fsync ordering)', 'attachments I/O', 'mfg_inspector and other subclasses']

OLD = b'OLD-COMPLETE-RECORD'
CHUNKS = ('AAA', 'BB', 'C')
FULL = ''.join(CHUNKS).encode()
DEST = 'dut1.T.json'


class Boom(Exception):
  pass


def _install(fs):
  ns = fs.namespaces()
  CB.tempfile = ns.tempfile
  CB.shutil = ns.shutil
  CB.os = ns.os
  AW.tempfile = ns.tempfile
  AW.os = ns.os
  AW.open = ns.open


def _record():
  return test_record.TestRecord(dut_id='dut1', station_id='st9', metadata={'test_name': 'T'})


class ScriptedOutput(CB.OutputToFile):
  """Real OutputToFile with a scripted serializer (<= 3 chunks, may raise after k)."""

  def __init__(self, pattern, raise_after=None, as_str=False):
    super().__init__(pattern)
    self.raise_after = raise_after
    self.as_str = as_str
    self.chunks = CHUNKS

  def serialize_test_record(self, test_rec):
    if self.as_str:
      return ''.join(CHUNKS)

    def gen():
      for i, c in enumerate(self.chunks):
        if self.raise_after is not None and i == self.raise_after:
          raise Boom('serializer failed after %d chunks' % i)
        yield c
      if self.raise_after is not None and self.raise_after >= len(CHUNKS):
        raise Boom('serializer failed at the end')
    return gen()


def _dest_ok(fs, had_old, new_full, succeeded):
  cur = fs.files.get(DEST)
  if cur is None:
    return (not had_old) and not succeeded      # absent only if it was absent and nothing was published
  if cur == new_full:
    return True
  if had_old and cur == OLD:
    return not succeeded
  return False                                   # truncated / partial / foreign content


@cond(timeout=600)
def c_output_to_file_atomic(fault: int, k: int, crash: int, had_old: bool, as_str: bool) -> bool:
  """
  pre: 0 <= fault <= 3
  pre: 0 <= k <= 3
  pre: -1 <= crash <= 8
  post: _
  """
  fs = memfs.MemFS({DEST: OLD} if had_old else {},
                   crash_at=(None if crash < 0 else crash),
                   fail_write_at=(k if fault == 2 else None),
                   fail_close=(fault == 3))
  _install(fs)
  out = ScriptedOutput('{dut_id}.{metadata[test_name]}.json',
                       raise_after=(k if fault == 1 else None), as_str=as_str)
  try:
    out(_record())
    raised = False
  except (Boom, memfs.FsFault):
    raised = True
  reach()
  # a fault-free, crash-free run publishes exactly the serialization under the formatted name
  faultless = (fault == 0 or (fault == 2 and k >= (1 if as_str else 3))) and not fs.crashed
  if faultless and (raised or fs.files.get(DEST) != FULL):
    return False
  succeeded = (not raised) and (not fs.crashed)
  return _dest_ok(fs, had_old, FULL, succeeded)


@cond(timeout=60, expect='refute')
def w_output_to_file_atomic(crash: int, had_old: bool) -> bool:
  """
  pre: -1 <= crash <= 8
  post: _
  """
  fs = memfs.MemFS({DEST: OLD} if had_old else {}, crash_at=(None if crash < 0 else crash))
  _install(fs)
  ScriptedOutput('{dut_id}.{metadata[test_name]}.json')(_record())
  return not (fs.crashed and had_old and fs.files.get(DEST) == OLD)   # witness: a crash leaves the old record


_PATTERNS = ('{dut_id}.{metadata[test_name]}.json', '%(dut_id)s.%(station_id)s', None)
_NAMES = ('dut1.T.json', 'dut1.st9', 'cb-dut1')


@cond(timeout=300)
def c_file_name_and_content(pi: int, which: int) -> bool:
  """
  pre: 0 <= pi <= 2
  pre: 0 <= which <= 2
  post: _
  """
  fs = memfs.MemFS()
  _install(fs)
  pattern = _PATTERNS[pi] if pi < 2 else (lambda **kw: 'cb-' + kw['dut_id'])
  rec = _record()
  reach()
  if which == 0:
    ScriptedOutput(pattern)(rec)
    want = FULL
  elif which == 1:
    JF.OutputToJSON(pattern)(rec)
    want = ''.join(JF.stream_json(JF.convert_test_record_to_json(rec))).encode()
  else:
    CB.OutputToFile(pattern)(rec)         # base class: pickle serialization
    import pickle
    want = pickle.dumps(rec, -1)
  names = sorted(fs.files)
  return names == [_NAMES[pi]] and fs.files[_NAMES[pi]] == want


@cond(timeout=600)
def c_output_to_json_crash(crash: int, had_old: bool) -> bool:
  """
  pre: -1 <= crash <= 8
  post: _
  """
  fs = memfs.MemFS({DEST: OLD} if had_old else {}, crash_at=(None if crash < 0 else crash))
  _install(fs)
  rec = _record()
  want = ''.join(JF.stream_json(JF.convert_test_record_to_json(rec))).encode()
  JF.OutputToJSON('{dut_id}.{metadata[test_name]}.json')(rec)
  reach()
  return _dest_ok(fs, had_old, want, not fs.crashed)


@cond(timeout=600)
def c_atomic_write_helper(fault: int, k: int, crash: int, had_old: bool, filesync: bool) -> bool:
  """
  pre: 0 <= fault <= 3
  pre: 0 <= k <= 3
  pre: -1 <= crash <= 8
  post: _
  """
  fs = memfs.MemFS({DEST: OLD} if had_old else {},
                   crash_at=(None if crash < 0 else crash),
                   fail_write_at=(k if fault == 2 else None),
                   fail_close=(fault == 3))
  _install(fs)
  try:
    with AW.atomic_write(DEST, filesync=filesync) as f:
      for i, c in enumerate(CHUNKS):
        if fault == 1 and i == k:
          raise Boom('body failed')
        f.write(c)
    raised = False
  except (Boom, memfs.FsFault):
    raised = True
  reach()
  faultless = (fault == 0 or (fault in (1, 2) and k >= 3)) and not fs.crashed
  if faultless and (raised or fs.files.get(DEST) != FULL):
    return False
  if not fs.crashed:
    # cleanup: no temporary file is left behind
    for name in fs.files:
      if name != DEST:
        return False
  return _dest_ok(fs, had_old, FULL, (not raised) and not fs.crashed)


LONG_CHUNKS = ('XXXXXXXX', 'YYYYYYYY', 'ZZZZ')      # the record of the earlier, crashed run: longer than FULL


@cond(timeout=600)
def c_crashed_run_then_successful_run(crash: int, had_old: bool, which: int) -> bool:
  """
  pre: 0 <= crash <= 8
  pre: 0 <= which <= 1
  post: _
  """
  # History of two runs to the same destination.  Run 1 writes a long record and the process dies at FS
  # operation `crash`; everything it left on the disk (staging files included) is the initial state of run 2,
  # which publishes a shorter record without any fault: the destination then holds exactly that record.
  fs1 = memfs.MemFS({DEST: OLD} if had_old else {}, crash_at=crash)
  _install(fs1)
  try:
    if which == 0:
      out1 = ScriptedOutput('{dut_id}.{metadata[test_name]}.json')
      out1.chunks = LONG_CHUNKS
      out1(_record())
    else:
      with AW.atomic_write(DEST) as f:
        for c in LONG_CHUNKS:
          f.write(c)
  except (Boom, memfs.FsFault):
    pass
  fs2 = memfs.MemFS(dict(fs1.files))
  _install(fs2)
  if which == 0:
    ScriptedOutput('{dut_id}.{metadata[test_name]}.json')(_record())
  else:
    with AW.atomic_write(DEST) as f:
      for c in CHUNKS:
        f.write(c)
  reach()
  return fs2.files.get(DEST) == FULL


@cond(timeout=60, expect='refute')
def w_crashed_run_then_successful_run(crash: int) -> bool:
  """
  pre: 0 <= crash <= 8
  post: _
  """
  fs1 = memfs.MemFS({}, crash_at=crash)
  _install(fs1)
  out1 = ScriptedOutput('{dut_id}.{metadata[test_name]}.json')
  out1.chunks = LONG_CHUNKS
  out1(_record())
  stale = [n for n in fs1.files if n != DEST and fs1.files[n]]
  fs2 = memfs.MemFS(dict(fs1.files))
  _install(fs2)
  ScriptedOutput('{dut_id}.{metadata[test_name]}.json')(_record())
  # witness: run 1 died leaving a non-empty staging file behind, and run 2 still published exactly its record
  return not (fs1.crashed and stale and fs2.files.get(DEST) == FULL)
