"""C01 - no false PASS: a run is PASS only if all that was declared ran and passed.

E1 (CrossHair) over the real executor (threads synchronous):
  * c_tree_outcome: trees of family T with two free deviations over all 13
    behaviour kinds; outcome == the statement's ladder computed by the spec
    interpreter, and PASS implies every conjunct on the observed record;
  * c_ladder_lemma: TestExecutor._execute_test_teardown from an ARBITRARY
    executor state (inductive lemma on the finalisation ladder);
  * c_executor_internal_failure: an internal error of the executor at an
    arbitrary phase never finalises PASS.
"""
import copy

import vlib.env  # noqa: F401
from vlib.cond import cond, reach
from vlib import stubs
from vlib import exe_harness as H

stubs.install_fmtshim(objects_opaque=True)
H.install_sync_threads()
H.quiet()
H.skip_base_type_caches()

from vlib import treecheck as TC
from vlib import trees as T
from openhtf.core import diagnoses_lib
from openhtf.core import phase_descriptor as PD
from openhtf.core import phase_executor as PE
from openhtf.core import test_executor as TE
from openhtf.core import test_record as TR
from openhtf.core import test_state as TS
from openhtf.util import threads as htf_threads
import props.C02 as C02

PROPERTY = 'C01'
LEVEL = 'other'
STUBS = C02.STUBS
NQ, NA = C02.NQ, C02.NA
KINDS = C02.KINDS


def FUNCTIONS():
  X = TE.TestExecutor
  return [X._thread_proc, X._execute_test_teardown, X._execute_phase, X._execute_checkpoint, X._execute_test_diagnosers,
          X._execute_test_diagnoser, TS.TestState.finalize_from_phase_outcome, TS.TestState.finalize_normally,
          TS.TestState.abort, TS.TestState._finalize, TS.TestState._outcome_is_failure_exception,
          PE.PhaseExecutor.execute_phase, TS.PhaseState.finalize]


BOUNDS = dict(C02.BOUNDS)
BOUNDS['trees_quick'] = 'quick tier: trees 1,3,5,7,9,12,13 of T; second deviation in {nominal, FAIL_AND_CONTINUE, STOP, exception}'
BOUNDS['trees_thorough'] = 'thorough tier: the 14 quick trees of T, both deviations over all 13 kinds (the 8 extra trees are covered structurally by C02 thorough)'
BOUNDS['script'] = 'any two phases deviate from nominal with any of 13 kinds each (None, FAIL_AND_CONTINUE, SKIP, FAIL_SUBTEST, STOP, REPEAT, failing/unset/marginal measurement, exception, listed failure exception, timeout, non-PhaseResult, CONTINUE), later invocations None/REPEAT, diagnoser codes, stop_on_first_failure, allow_unset_measurements'
BOUNDS['ladder lemma'] = 'arbitrary executor state satisfying the invariant "ERROR phase record => terminal last outcome or abort": abort flag, last outcome kind (none / non-terminal / STOP / exception / listed failure exception / timeout), <= 3 phase record outcomes, <= 1 diagnosis (failure bit), <= 1 subtest outcome (fixed mixed record set when abort/terminal outcome decide)'
ASSUMPTIONS = C02.ASSUMPTIONS + ['measurements of a phase whose outcome is SKIP (SKIP result / non-final REPEAT) are not part of the verdict (the phase counts as skipped by a documented rule)']
OUTSIDE = C02.OUTSIDE + ['test_start and plugs (C08/C09)', 'real-time timeouts (TIMEOUT is a scripted behaviour)']


_QT = (1, 3, 5, 7, 9, 12, 13)      # trees of the quick tier (C02 checks the structure on all of T)
_V2Q = (0, 1, 4, 7)                # second deviation in the quick tier: nominal, FAIL_AND_CONTINUE, STOP, exception


@cond(timeout=1500, split={'ti': _QT, 'i1': range(5), 'v1': range(13), 'wide': (False,)},
      split_thorough={'ti': range(NQ), 'i1': range(5), 'v1': range(13), 'wide': (True,)}, timeout_thorough=5400)
def c_tree_outcome(ti: int, i1: int, v1: int, i2: int, v2: int, rb: int, g0: int, g1: int, soff: bool, au: bool, wide: bool) -> bool:
  """
  pre: 0 <= ti < NA
  pre: 0 <= i1 <= 4 and i1 <= i2 <= 4
  pre: 0 <= v1 <= 12 and 0 <= v2 <= 12
  pre: wide or v2 in _V2Q
  pre: 0 <= rb <= 1
  pre: 0 <= g0 <= 4 and 0 <= g1 <= 4
  post: _
  """
  return C02._run2(ti, i1, v1, i2, v2, rb, g0, g1, soff, au, lambda r, au_: TC.no_false_pass(r, au_))


@cond(timeout=300, expect='refute')
def w_tree_outcome_pass(v1: int, v2: int) -> bool:
  """
  pre: 0 <= v1 <= 12 and 0 <= v2 <= 12
  post: _
  """
  # witness: the group tree ends PASS for some script in which a phase deviates (marginal / CONTINUE)
  r = TC.run_tree(1, [KINDS[v1][0], KINDS[v2][0], 0, 0, 0], 0, [KINDS[v1][1], KINDS[v2][1], 0, 0, 0], [0] * 5, False, False)
  return not (r.rec.outcome is TR.Outcome.PASS and v1 == 12 and TC.no_false_pass(r, False))


@cond(timeout=600, split={'ti': (0, 2), 'au1': (False, True), 'au2': (False, True)},
      note='split on the settings of both runs: each worker process then explores one (au1, au2) pair, so a leak through module-level state shows inside a single path and replays natively')
def c_two_consecutive_runs(ti: int, au1: bool, au2: bool, u1: bool, k2: int, i2: int) -> bool:
  """
  pre: ti in (0, 2)
  pre: 0 <= k2 <= 2 and 0 <= i2 <= 2
  post: _
  """
  # the verdict of a run depends only on that run: settings of an earlier run in the same
  # process (allow_unset_measurements, ...) must not leak into the next one
  first = [(KINDS[11] if (k == 0 and u1) else KINDS[0]) for k in range(5)]
  r1 = TC.run_tree(ti, [k[0] for k in first], 0, [k[1] for k in first], [0] * 5, False, au1)
  ok1 = TC.no_false_pass(r1, au1)
  kind2 = (KINDS[0], KINDS[11], KINDS[6])[k2]      # nominal / unset measurement / failing measurement
  second = [(kind2 if k == i2 else KINDS[0]) for k in range(5)]
  r2 = TC.run_tree(ti, [k[0] for k in second], 0, [k[1] for k in second], [0] * 5, False, au2)
  return ok1 and TC.no_false_pass(r2, au2)


# ---------------------------------------------------------------- ladder lemma --

_LEMMA_TEST = H.make_test(H.make_phase('lp', measured=False))
_LEMMA_TEST.configure(failure_exceptions=[H.ListedFailure])


class _D(diagnoses_lib.DiagResultEnum):
  X = 'x'
  Y = 'y'


def _exc_info(exc):
  try:
    raise exc
  except Exception:
    import sys
    return PE.ExceptionInfo(*sys.exc_info())


def _has_error(np, o0, o1, o2):
  return (np > 0 and o0 == 3) or (np > 1 and o1 == 3) or (np > 2 and o2 == 3)


@cond(timeout=600, split={'lo': range(6), 'abort': (False, True), 'np': range(4)})
def c_ladder_lemma(abort: bool, lo: int, np: int, o0: int, o1: int, o2: int,
                   nd: int, f0: bool, ns: int, s0: int) -> bool:
  """
  pre: 0 <= lo <= 5
  pre: 0 <= np <= 3 and 0 <= o0 <= 3 and 0 <= o1 <= 3 and 0 <= o2 <= 3
  pre: 0 <= nd <= 1 and 0 <= ns <= 1 and 0 <= s0 <= 2
  pre: (not _has_error(np, o0, o1, o2)) or abort or lo >= 2
  post: _
  """
  # representation invariant (last pre): an ERROR phase record only exists together with a
  # terminal last outcome (every ERROR record stems from a terminal result) or an abort.
  o3, f1, s1 = 0, False, 0
  if abort or lo >= 2:
    # the ladder does not consult the records here: use a fixed worst-case record set
    np, o0, o1, o2, nd, f0, ns, s0 = 3, 0, 1, 2, 1, True, 1, 1
  H.reset_globals()
  opts = _LEMMA_TEST._test_options
  ex = TE.TestExecutor(_LEMMA_TEST.descriptor, 'uid:lemma', None, opts, False)
  st = ex.test_state = TS.TestState(_LEMMA_TEST.descriptor, 'uid:lemma', opts)
  ex._phase_exec = PE.PhaseExecutor(st)
  try:
    rec = st.test_record
    outs = (TR.PhaseOutcome.PASS, TR.PhaseOutcome.FAIL, TR.PhaseOutcome.SKIP, TR.PhaseOutcome.ERROR)
    pouts = [outs[o] for o in (o0, o1, o2, o3)[:np]]
    for po in pouts:
      pr = TR.PhaseRecord(1, 'x', None)
      pr.outcome = po
      pr.measurements = {}
      rec.phases.append(pr)
    fbits = [f0, f1][:nd]
    for i, fb in enumerate(fbits):
      rec.diagnoses.append(diagnoses_lib.Diagnosis((_D.X, _D.Y)[i], is_failure=bool(fb)))
    souts = (TR.SubtestOutcome.PASS, TR.SubtestOutcome.FAIL, TR.SubtestOutcome.STOP)
    sl = [souts[s] for s in (s0, s1)[:ns]]
    for i, so in enumerate(sl):
      rec.subtests.append(TR.SubtestRecord(name='s%d' % i, start_time_millis=0, outcome=so))
    if abort:
      ex._abort.set()
    # last outcome kinds: 0 none, 1 non-terminal (CONTINUE), 2 STOP, 3 exception, 4 listed failure exception, 5 timeout
    if lo == 1:
      ex._last_outcome = PE.PhaseExecutionOutcome(PD.PhaseResult.CONTINUE)
    elif lo == 2:
      ex._last_outcome = PE.PhaseExecutionOutcome(PD.PhaseResult.STOP)
    elif lo == 3:
      ex._last_outcome = PE.PhaseExecutionOutcome(_exc_info(H.PhaseError('x')))
    elif lo == 4:
      ex._last_outcome = PE.PhaseExecutionOutcome(_exc_info(H.ListedFailure('x')))
    elif lo == 5:
      ex._last_outcome = PE.PhaseExecutionOutcome(None)
    ex._last_execution_unit = 'unit'
    ex._execute_test_teardown()
    reach()
    # the ladder of the statement: abort > first terminal event > normal aggregation
    if abort:
      want = 'ABORTED'
    elif lo == 2:
      want = 'FAIL'
    elif lo == 3:
      want = 'ERROR'
    elif lo == 4:
      want = 'FAIL'
    elif lo == 5:
      want = 'TIMEOUT'
    else:
      if not pouts:
        want = 'PASS'
      elif any(po is TR.PhaseOutcome.FAIL for po in pouts):
        want = 'FAIL'
      elif all(po is TR.PhaseOutcome.SKIP for po in pouts):
        want = 'ERROR'
      elif any(fbits):
        want = 'FAIL'
      elif any(so is TR.SubtestOutcome.FAIL for so in sl):
        want = 'FAIL'
      elif any(po is TR.PhaseOutcome.ERROR for po in pouts):
        want = 'NOT-PASS'          # a recorded ERROR phase must never aggregate to PASS
      else:
        want = 'PASS'
    got = rec.outcome.name if rec.outcome else None
    if want == 'NOT-PASS':
      return got is not None and got != 'PASS'
    return got == want and st.is_finalized and rec.end_time_millis is not None
  finally:
    st.close()


# ------------------------------------------------- executor-internal failure ----

class _InternalError(RuntimeError):
  pass


_NPH = {0: 3, 1: 4, 3: 4, 9: 5}     # number of phases of the trees used below


@cond(timeout=600, split={'ti': (0, 1, 3, 9)})
def c_executor_internal_failure(ti: int, k: int, where: int) -> bool:
  """
  pre: ti in (0, 1, 3, 9)
  pre: 0 <= k <= 5
  pre: 0 <= where <= 1
  post: _
  """
  # all phases nominal; the executor itself fails at the k-th phase (before or after running it)
  H.reset_globals()
  test = TC.test_for(ti)
  real = PE.PhaseExecutor.execute_phase
  calls = [0]

  def faulty(self, *a, **kw):
    n = calls[0]
    calls[0] += 1
    if n == k and where == 0:
      raise _InternalError('executor bug')
    r = real(self, *a, **kw)
    if n == k and where == 1:
      raise _InternalError('executor bug')
    return r
  PE.PhaseExecutor.execute_phase = faulty
  try:
    r = TC.run_tree(ti, [0] * 5, 0, [0] * 5, [0] * 5, False, False)
  finally:
    PE.PhaseExecutor.execute_phase = real
  reach()
  failed = calls[0] > k
  if not failed:
    return r.escaped is None and r.rec.outcome is TR.Outcome.PASS
  # the executor itself failed: the run must not be PASS
  return r.rec.outcome is not None and r.rec.outcome is not TR.Outcome.PASS
