"""C08 - plug lifecycle: one instance per run, tearDown exactly once, always.

E1: real PlugManager.initialize_plugs / tear_down_plugs / provide_plugs, TestExecutor
_thread_proc / _execute_test_start / _initialize_plugs / _execute_test_teardown,
PhaseDescriptor.__call__ (injection by name) and Test.execute (so that "before the
output callbacks" is observable), with instrumented plug classes and symbolic faults.
"""
import vlib.env  # noqa: F401
from vlib.cond import cond, reach
from vlib import stubs
from vlib import exe_harness as H

stubs.install_fmtshim(objects_opaque=True)
H.install_sync_threads()
H.quiet()
H.skip_base_type_caches()

import openhtf as htf
from openhtf import plugs as plugs_mod
from openhtf.core import base_plugs
from openhtf.core import phase_descriptor as PD
from openhtf.core import test_descriptor as TD
from openhtf.core import test_executor as TE
from openhtf.core import test_record as TR
from vlib import spec_events as SE
from vlib import treecheck as TC
import props.C02 as C02
import props.C09 as C09      # deferred executor start (body runs when execute() waits)

PROPERTY = 'C08'
LEVEL = 'fault_enumeration'
KINDS = C02.KINDS
STUBS = C09.STUBS
CONF = H.CONF


def FUNCTIONS():
  PM = plugs_mod.PlugManager
  return [PM.initialize_plugs, PM.tear_down_plugs, PM.provide_plugs, PM.update_plug, plugs_mod._PlugTearDownThread._thread_proc,
          TE.TestExecutor._thread_proc, TE.TestExecutor._execute_test_start, TE.TestExecutor._initialize_plugs,
          TE.TestExecutor._execute_test_teardown, PD.PhaseDescriptor.__call__, TD.Test.execute]


BOUNDS = {'plugs': '3 instrumented plug classes A, B, C; phases p0(a=A), p1(b=B, a2=A), p2(c=C); test_start none / uses A / uses A and raises / uses no plug',
          'faults': 'constructor of class k raises (k symbolic or none); tearDown of each class: ok / raises / hangs (with plug_teardown_timeout_s set); one phase deviates with any of 13 behaviour kinds'}
ASSUMPTIONS = ['a hanging tearDown is modelled by the tear-down thread staying alive until kill()']
OUTSIDE = ['real hanging threads / ThreadTerminationError delivery (C12)', 'remote plugs, placeholder substitution', 'abort during plug construction (C04)']

LOG = []
FAULT = {'ctor': -1, 'td': (0, 0, 0)}


class PlugCtorError(Exception):
  pass


class PlugTearDownError(Exception):
  pass


class _Inst(base_plugs.BasePlug):
  IDX = -1

  def __init__(self):
    LOG.append(('ctor-begin', self.IDX))
    if FAULT['ctor'] == self.IDX:
      raise PlugCtorError('constructor of plug %d failed' % self.IDX)
    LOG.append(('ctor', self.IDX, id(self)))

  def tearDown(self):
    LOG.append(('td', self.IDX, id(self)))
    if FAULT['td'][self.IDX] == 1:
      raise PlugTearDownError('tearDown of plug %d failed' % self.IDX)


H.HANG_TEST[0] = lambda plug: isinstance(plug, _Inst) and FAULT['td'][plug.IDX] == 2


class PA(_Inst):
  IDX = 0


class PB(_Inst):
  IDX = 1


class PC(_Inst):
  IDX = 2


def _plug_phase(name, **plugs):
  def body(test, **got):
    LOG.append(('phase', name, tuple(sorted((k, type(v).IDX, id(v)) for k, v in got.items()))))
    return H.run_body(name, test, False)
  body.__name__ = name
  ph = PD.PhaseOptions(name=name)(PD.PhaseDescriptor.wrap_or_copy(body))
  return htf.plug(**plugs)(ph)


P0 = _plug_phase('p0', a=PA)
P1 = _plug_phase('p1', b=PB, a2=PA)
P2 = _plug_phase('p2', c=PC)


def _ts_ok(test, a):
  LOG.append(('test_start', type(a).IDX, id(a), tuple(e[1] for e in LOG if e[0] == 'ctor')))
  test.test_record.dut_id = 'dut'


def _ts_bad(test, a):
  LOG.append(('test_start', type(a).IDX, id(a), tuple(e[1] for e in LOG if e[0] == 'ctor')))
  raise H.PhaseError('test_start failed')


def _ts_noplug(test):
  LOG.append(('test_start', -1, None, tuple(e[1] for e in LOG if e[0] == 'ctor')))
  test.test_record.dut_id = 'dut'


TS_NOPLUG = PD.PhaseDescriptor.wrap_or_copy(_ts_noplug)
TS_OK = htf.plug(a=PA)(PD.PhaseDescriptor.wrap_or_copy(_ts_ok))
TS_BAD = htf.plug(a=PA)(PD.PhaseDescriptor.wrap_or_copy(_ts_bad))


def _cb(rec):
  LOG.append(('callback', rec.outcome.name if rec.outcome else None))


TEST = H.make_test(P0, P1, P2)
TEST.configure(failure_exceptions=[H.ListedFailure])
TEST.add_output_callbacks(_cb)
TREE = [('phase', 'p0', {'measured': False}), ('phase', 'p1', {'measured': False}), ('phase', 'p2', {'measured': False})]


@cond(timeout=1200, split={'ts': range(4), 'cf': range(-1, 3)})
def c_plug_lifecycle(ts: int, cf: int, ta: int, tb: int, tc: int, i1: int, v1: int) -> bool:
  """
  pre: 0 <= ts <= 3 and -1 <= cf <= 2
  pre: 0 <= ta <= 2 and 0 <= tb <= 2 and 0 <= tc <= 2
  pre: 0 <= i1 <= 2 and 0 <= v1 <= 12
  post: _
  """
  H.reset_globals()
  del LOG[:]
  FAULT['ctor'] = cf
  FAULT['td'] = (ta, tb, tc)
  H.SCRIPT.bad_index = 1
  for k in range(3):
    kind = KINDS[v1] if k == i1 else KINDS[0]
    H.SCRIPT.beh['p%d' % k] = [kind[0], 0]
  CONF.load(plug_teardown_timeout_s=1)
  try:
    ret = TEST.execute(test_start=(None, TS_OK, TS_BAD, TS_NOPLUG)[ts])
  except H.WouldHangForever:
    return False          # an abandoned tearDown must not block the executor
  finally:
    CONF.reset()
    FAULT['ctor'] = -1
    FAULT['td'] = (0, 0, 0)
  reach()
  log = list(LOG) + [('hang', e[1]) for e in H.SCRIPT.log if e[0] == 'teardown-hang']
  ctors = [e for e in LOG if e[0] == 'ctor']
  begun = [e[1] for e in LOG if e[0] == 'ctor-begin']
  # each class is constructed at most once per run
  for k in range(3):
    if begun.count(k) > 1:
      return False
  inst = dict((e[1], e[2]) for e in ctors)
  # every phase that requests a plug receives that same instance under the requested name
  want_names = {'p0': (('a', 0),), 'p1': (('a2', 0), ('b', 1)), 'p2': (('c', 2),)}
  for e in LOG:
    if e[0] == 'phase':
      got = e[2]
      if tuple((n, k) for (n, k, _) in got) != want_names[e[1]]:
        return False
      for (n, k, i) in got:
        if inst.get(k) != i:
          return False
    if e[0] == 'test_start':
      # only the plugs test_start needs exist while test_start runs
      if e[1] == -1:
        if e[3] != ():
          return False
      elif e[3] != (0,) or inst.get(0) != e[2]:
        return False
  # every constructed instance has tearDown called exactly once (a hanging one is abandoned once) ...
  hang_names = [e[1] for e in H.SCRIPT.log if e[0] == 'teardown-hang']
  for k, i in inst.items():
    n_td = len([e for e in LOG if e[0] == 'td' and e[2] == i])
    n_hang = hang_names.count(('PA', 'PB', 'PC')[k])
    if n_td + n_hang != 1:
      return False
  # ... after the last phase and before the output callbacks
  idx_td = [j for j, e in enumerate(LOG) if e[0] == 'td']
  idx_ph = [j for j, e in enumerate(LOG) if e[0] in ('phase', 'test_start')]
  idx_cb = [j for j, e in enumerate(LOG) if e[0] == 'callback']
  if len(idx_cb) != 1:
    return False
  if idx_td and idx_ph and min(idx_td) < max(idx_ph):
    return False
  if idx_td and max(idx_td) > idx_cb[0]:
    return False
  # outcome: a failing / abandoned tearDown changes nothing; a constructor failure gives ERROR and no further phase
  outcome = [e for e in LOG if e[0] == 'callback'][0][1]
  ts_needs = ts in (1, 2)
  ctor_fails_for_ts = ts_needs and cf == 0
  phases_ran = [e[1] for e in LOG if e[0] == 'phase']
  if ctor_fails_for_ts:
    return outcome == 'ERROR' and not phases_ran and not [e for e in LOG if e[0] == 'test_start']
  if ts == 2:
    return outcome == 'ERROR' and not phases_ran and begun == [0]      # terminal test_start: only its plugs ever existed
  if cf >= 0:
    return outcome == 'ERROR' and not phases_ran
  spec = SE.Spec(H.SCRIPT)
  want = spec.run(TREE)
  return outcome == want and ret == (want == 'PASS')


@cond(timeout=120, expect='refute')
def w_teardown_hang_and_raise(ta: int, tb: int, tc: int) -> bool:
  """
  pre: 0 <= ta <= 2 and 0 <= tb <= 2 and tc == 0
  post: _
  """
  H.reset_globals()
  del LOG[:]
  FAULT['td'] = (ta, tb, tc)
  CONF.load(plug_teardown_timeout_s=1)
  try:
    ret = TEST.execute()
  finally:
    CONF.reset()
    FAULT['td'] = (0, 0, 0)
  tds = [e[1] for e in LOG if e[0] == 'td']
  return not (ret is True and ta == 2 and tb == 1 and sorted(tds) == [1, 2])    # order-independent: tear-down order follows set iteration order
