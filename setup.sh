#!/bin/bash
# Builds /verif/.venv: an overlay on /venv (python 3.12 + openhtf deps) with
# crosshair-tool, z3-solver and cvc5 from the offline wheelhouse.  Idempotent.
set -e
cd "$(dirname "$0")"
V=/verif/.venv
if [ ! -x "$V/bin/python" ] || ! "$V/bin/python" -c "import crosshair, z3" 2>/dev/null; then
  rm -rf "$V"
  /venv/bin/python -m venv "$V"
  SP=$("$V/bin/python" -c "import sysconfig; print(sysconfig.get_paths()['purelib'])")
  echo "import site; site.addsitedir('/venv/lib/python3.12/site-packages')" > "$SP/verif_overlay.pth"
  PIP_NO_INDEX=1 "$V/bin/pip" install -q --no-index --find-links /opt/veriftools/wheels crosshair-tool z3-solver cvc5
fi
"$V/bin/python" -c "import crosshair, z3; print('setup ok: crosshair', crosshair.__version__, 'z3', z3.get_version_string())"
