"""D14 (C14): lost wake-up in AdbStreamTransport._read_messages_until_true - real threads.

Two host threads share one stream (as in shell_service: a reader thread and a writer).  The
reader is the thread currently reading messages for the stream.  The writer sends a WRTE and
enters _read_messages_until_true(lambda: not self._expecting_okay): it evaluates the predicate
(False), and *before* it acquires the message_received condition the reader receives the OKAY,
handles it and notify_all()s (nobody is waiting yet).  The writer then fails to get the reader
lock and wait()s - nobody notifies again, so the write sits out its whole timeout and raises
AdbTimeoutError although its WRTE was acknowledged immediately.

The window is forced deterministically by wrapping the condition object's acquire() for the
writer thread; nothing else of the real code is changed.

usage: /verif/.venv/bin/python findings/D14_lost_wakeup_read_messages_until_true.py   (exit 1 = defect reproduced)
"""
import queue
import sys
import threading
import time
import types

import os
sys.path.insert(0, os.path.dirname(os.path.dirname(os.path.abspath(__file__))))
from vlib import usbstub  # noqa: E402  (loads openhtf/plugs/usb/*.py from /repo without libusb / M2Crypto)
adb_message = usbstub.load_usb('adb_message')
usb_exceptions = usbstub.load_usb('usb_exceptions')
adb_protocol = usbstub.load_usb('adb_protocol')


class Device:
  def __init__(self):
    self.q = queue.Queue()
    self.sent = []

  def write_message(self, message, timeout):
    self.sent.append((message.command, message.arg0, message.arg1, message.data))
    if message.command == 'WRTE':
      self.q.put(adb_message.AdbMessage('OKAY', message.arg1, message.arg0, ''))

  def read_message(self, timeout):
    try:
      return self.q.get(True, max(timeout.remaining or 0, 0.001))
    except queue.Empty:
      raise usb_exceptions.AdbTimeoutError('usb read timed out')


class HookedCondition:
  """Delegates to the real Condition; the writer thread's first acquire() waits until the reader
  thread has handled the OKAY (that is the interleaving under test)."""

  def __init__(self, real, st):
    self._real, self._st, self.armed = real, st, False

  def acquire(self, *a):
    if self.armed and threading.current_thread().name == 'writer':
      self.armed = False
      deadline = time.time() + 2
      while self._st._expecting_okay and time.time() < deadline:
        time.sleep(0.005)
      time.sleep(0.1)         # let the reader finish notify_all() and go back to reading
    return self._real.acquire(*a)

  def __getattr__(self, n):
    return getattr(self._real, n)

  def __enter__(self):
    return self._real.__enter__()

  def __exit__(self, *a):
    return self._real.__exit__(*a)


def main():
  dev = Device()
  conn = adb_protocol.AdbConnection(dev, 4096, 'device::')
  st = adb_protocol.AdbStreamTransport(conn, 1, queue.Queue())
  st.remote_id = 11
  st.closed_state = st.ClosedState.OPEN     # as after a completed OPEN/OKAY handshake
  st._expecting_okay = False
  conn._stream_transport_map[1] = st
  stream = adb_protocol.AdbStream('shell:', st)
  hooked = HookedCondition(st._message_received, st)
  st._message_received = hooked
  res = {}

  def reader():
    try:
      res['read'] = stream.read(timeout_ms=3000)
    except Exception as e:  # pylint: disable=broad-except
      res['read'] = type(e).__name__

  def writer():
    t0 = time.time()
    hooked.armed = True
    try:
      stream.write('hi', timeout_ms=1500)
      res['write'] = 'ok'
    except Exception as e:  # pylint: disable=broad-except
      res['write'] = type(e).__name__
    res['write_s'] = time.time() - t0

  r = threading.Thread(target=reader, name='reader', daemon=True)
  r.start()
  time.sleep(0.2)             # the reader is now the stream's reading thread, blocked in the transport
  w = threading.Thread(target=writer, name='writer', daemon=True)
  w.start()
  w.join(5)
  print('device received:', dev.sent)
  print('writer result: %s after %.2fs; _expecting_okay=%s' % (res.get('write'), res.get('write_s', -1), st._expecting_okay))
  if res.get('write') == 'AdbTimeoutError' and st._expecting_okay is False:
    print('DEFECT REPRODUCED: the OKAY was received and handled at once, yet write() waited out its timeout')
    return 1
  print('not reproduced (write completed when its OKAY arrived)')
  return 0


if __name__ == '__main__':
  sys.exit(main())
