"""Real-thread demonstration of finding D13 (property C04), repeat variant.

Same window as D13_abort_lost_before_phase_start.py, but the phase returns REPEAT: after the lost abort the
repeat loop of PhaseExecutor.execute_phase re-invokes it up to its repeat limit (the stop flag was withdrawn,
the abort flag is not consulted inside the loop).


An abort that runs completely between the executor's `_abort` check in
_execute_abortable_sequence and the `_stopping` check in
PhaseExecutor._execute_phase_once is lost for that phase: abort() sets the stop
flag, finds no current phase thread, *resets* the stop flag and returns; the
executor then starts the main phase, whose body runs to completion although the
abort call has returned.  The window is forced here by calling abort from inside
PhaseState.from_descriptor (which runs inside that window, on the executor thread's
behalf, via a helper thread that is joined before continuing).

exit 0 = the phase body did NOT run after abort returned (property holds)
exit 1 = the body ran after abort() had returned (finding reproduced)
"""
import sys
import threading
sys.argv = [sys.argv[0]]
sys.path.insert(0, '/repo')
import openhtf as htf
from openhtf.core import test_state

events = []
test_ref = []


@htf.PhaseOptions(repeat_limit=3)
def main_phase(test):
  events.append('body-ran')
  return htf.PhaseResult.REPEAT


orig = test_state.PhaseState.from_descriptor.__func__


def hooked(cls, phase_desc, ts, logger):
  if phase_desc.name == 'main_phase' and 'abort-returned' not in events:
    def do_abort():
      test_ref[0]._executor.abort()
      events.append('abort-returned')
    t = threading.Thread(target=do_abort)
    t.start()
    t.join()
  return orig(cls, phase_desc, ts, logger)


test_state.PhaseState.from_descriptor = classmethod(hooked)
test = htf.Test(main_phase)
test_ref.append(test)
result = test.execute()
print('events:', events, 'outcome:', test_ref and result)
if events == ['abort-returned', 'body-ran', 'body-ran', 'body-ran']:
  print('D13 (repeat variant) reproduced: main phase body invoked and re-invoked 3 times after abort() returned')
  sys.exit(1)
sys.exit(0)
