"""Real-thread demonstration of finding D15 (property C12).

PhaseExecutorThread.join_or_die reads `_phase_execution_outcome` (None: the body is still
running after the deadline) and only then asks `is_alive()`.  A body that finishes between the
two reads is reported as PhaseExecutionOutcome(ThreadTerminationError()) - "phase was killed" -
although nobody killed it: the phase and the run end ERROR instead of TIMEOUT (or the phase's own result).

The window is forced by wrapping PhaseExecutorThread.is_alive: the second call (the
one after the outcome check) first lets the body finish and the thread end.  Everything else is
the real code, running whole tests on real threads.

exit 0 = outcome is TIMEOUT or the phase's own result; exit 1 = finding reproduced.
"""
import sys
import threading
sys.argv = [sys.argv[0]]
sys.path.insert(0, '/repo')
import openhtf as htf
from openhtf.core import phase_executor
from openhtf.util import threads

release = threading.Event()
seen = []


calls = [0]
_orig_is_alive = phase_executor.PhaseExecutorThread.is_alive


def is_alive(self):
  if threading.current_thread() is not self and self._phase_desc.name == 'slow_phase':
    calls[0] += 1
    if calls[0] == 2:                   # the check after `if self._phase_execution_outcome:`
      release.set()                     # the body returns now ...
      threading.Thread.join(self)       # ... and the thread ends before is_alive() is evaluated
  return _orig_is_alive(self)


phase_executor.PhaseExecutorThread.is_alive = is_alive
phase_executor._JOIN_TRY_INTERVAL_SECONDS = 0.05      # the polling interval (3 s) shortened for the demo


@htf.PhaseOptions(timeout_s=0.05)
def slow_phase(test):
  release.wait(5)
  seen.append('body-returned')


test = htf.Test(slow_phase)
records = []
test.add_output_callbacks(records.append)
test.execute()
rec = records[0]
print('test outcome:', rec.outcome.name, '; phase outcome:', rec.phases[-1].outcome.name,
      '; result:', rec.phases[-1].result.phase_result if rec.phases[-1].result else None, '; body:', seen)
if rec.outcome.name == 'ABORTED' or isinstance(getattr(rec.phases[-1].result, 'phase_result', None), threads.ThreadTerminationError):
  print('D15 reproduced: a phase nobody killed is reported as killed (ThreadTerminationError)')
  sys.exit(1)
sys.exit(0)
