#!/usr/bin/env python3
"""tools/run_seeded.py [ids...] : for every seeded change applies the patch to /repo, runs the quick
check(s) expected to catch it, records seeded/<id>/result.json, always reverts /repo.  Sequential:
/repo is shared.  Exit 0 if every change was caught by at least its home check."""
import json, os, re, subprocess, sys, time
HERE = os.path.dirname(os.path.dirname(os.path.abspath(__file__)))


def sh(cmd, **k):
  return subprocess.run(cmd, shell=True, capture_output=True, text=True, **k)


def main():
  ids = sys.argv[1:] or sorted(d for d in os.listdir(os.path.join(HERE, 'seeded')) if re.match(r'C\d\d-m\d$', d))
  if sh('git -C /repo status --short').stdout.strip():
    print('REPO DIRTY - refusing'); return 4
  missed = []
  for sid in ids:
    d = os.path.join(HERE, 'seeded', sid)
    meta = json.load(open(os.path.join(d, 'meta.json')))
    res = {'repo_head': sh('git -C /repo rev-parse --short HEAD').stdout.strip(), 'runs': []}
    try:
      a = sh('git -C /repo apply %s/patch.diff' % d)
      if a.returncode:
        res['error'] = 'patch does not apply: ' + a.stderr[-300:]
      else:
        for chk in (meta['expected_to_be_caught_by'][:1] if os.environ.get('HOME_ONLY') else meta['expected_to_be_caught_by']):
          t0 = time.time()
          r = sh('./bin/check %s --tier quick' % chk, cwd=HERE)
          lines = [l for l in r.stdout.splitlines() if l.startswith(('VIOLATION', 'INCONCLUSIVE'))]
          conds = sorted(set(re.sub(r'-\d+\.json$', '', l.split('replay=')[1].split('/')[-1]) for l in lines if l.startswith('VIOLATION')))
          res['runs'].append({'check': './bin/check %s --tier quick' % chk, 'exit': r.returncode, 'violations': sum(l.startswith('VIOLATION') for l in lines),
                              'violating_conditions': conds, 'inconclusive': [l[:200] for l in lines if l.startswith('INCONCLUSIVE')][:3], 'wall_s': round(time.time() - t0, 1)})
    finally:
      sh('git -C /repo checkout -- .')
    res['caught'] = any(x['exit'] == 1 and x['violations'] for x in res['runs'])
    json.dump(res, open(os.path.join(d, 'result.json'), 'w'), indent=1)
    print(sid, 'CAUGHT' if res['caught'] else 'MISSED', [(x['check'].split()[1], x['exit'], x['wall_s']) for x in res['runs']], flush=True)
    if not res['caught']:
      missed.append(sid)
  print('missed:', missed)
  return 1 if missed else 0


if __name__ == '__main__':
  sys.exit(main())
