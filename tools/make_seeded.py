#!/usr/bin/env python3
"""Lays out seeded/<Cxx-mN>/ (patch.diff, demo.py, notes.md, meta.json) from seeded/_incoming and the table below.
`checks`: the checks expected to catch the change (first one is the home check)."""
import json, os, re, shutil
HERE = os.path.dirname(os.path.dirname(os.path.abspath(__file__)))
INC = os.path.join(HERE, 'seeded', '_incoming')
CHECKS = {
  'C01-m1': ['C01', 'C05'], 'C01-m2': ['C01'], 'C02-m1': ['C02', 'C03'], 'C02-m2': ['C02'],
  'C03-m1': ['C03', 'C04'], 'C03-m2': ['C03', 'C02'], 'C04-m1': ['C04'], 'C04-m2': ['C04', 'C03'],
  'C05-m1': ['C05'], 'C05-m2': ['C05'], 'C06-m1': ['C06'], 'C06-m2': ['C06'], 'C07-m1': ['C07'], 'C07-m2': ['C07'],
  'C08-m1': ['C08'], 'C08-m2': ['C08'], 'C09-m1': ['C09'], 'C09-m2': ['C09'], 'C10-m1': ['C10'], 'C10-m2': ['C10'],
  'C11-m1': ['C11'], 'C11-m2': ['C11'], 'C12-m1': ['C12'], 'C12-m2': ['C12'], 'C13-m1': ['C13'], 'C13-m2': ['C13'],
  'C14-m1': ['C14'], 'C14-m2': ['C14'], 'C15-m1': ['C15'], 'C15-m2': ['C15'], 'C16-m1': ['C16'], 'C16-m2': ['C16'],
  'C17-m1': ['C17'], 'C17-m2': ['C17'], 'C18-m1': ['C18'], 'C18-m2': ['C18'], 'C19-m1': ['C19'], 'C19-m2': ['C19'],
  'C20-m1': ['C20'], 'C20-m2': ['C20'],
}
REBASED = {'C06-m2': 'rebased onto the D3a fix commit 054ce8db (context lines only; original kept as patch.prefix.diff)',
           'C17-m2': 'rebased onto the D4/D10 fix commits (original sub-agent patch kept as patch.prefix.diff)',
           'C12-m2': 'rebased onto the D15 fix commit 76d6b78a: same semantic change (is_alive() consulted before the stored outcome); original kept as patch.prefix.diff'}


def section(notes, *keys):
  """First bullet/paragraph of notes.md mentioning one of the keys."""
  text = notes.replace('\r', '')
  parts = re.split(r'\n(?=[-*] |\*\*|\n)', text)
  for p in parts:
    low = p.lower()
    if any(k in low for k in keys):
      return ' '.join(p.split())[:900]
  return ''


def refresh():
  """_incoming is gone after the first lay-out: only fold result.json into meta.json."""
  for sid in sorted(os.listdir(os.path.join(HERE, 'seeded'))):
    d = os.path.join(HERE, 'seeded', sid)
    if not os.path.exists(os.path.join(d, 'meta.json')):
      continue
    meta = json.load(open(os.path.join(d, 'meta.json')))
    if os.path.exists(os.path.join(d, 'result.json')):
      meta['last_run'] = json.load(open(os.path.join(d, 'result.json')))
    json.dump(meta, open(os.path.join(d, 'meta.json'), 'w'), indent=1)
  print('refreshed')


def main():
  if not os.path.isdir(INC):
    return refresh()
  for prop in sorted(os.listdir(INC)):
    for m in sorted(os.listdir(os.path.join(INC, prop))):
      src = os.path.join(INC, prop, m)
      sid = '%s-%s' % (prop, m)
      dst = os.path.join(HERE, 'seeded', sid)
      os.makedirs(dst, exist_ok=True)
      for f in os.listdir(src):
        shutil.copy2(os.path.join(src, f), os.path.join(dst, f))
      notes = open(os.path.join(src, 'notes.md')).read()
      title = notes.splitlines()[0].lstrip('# ').strip()
      files = sorted(set(re.findall(r'^\+\+\+ b/(\S+)', open(os.path.join(src, 'patch.diff')).read(), re.M)))
      meta = {
        'id': sid, 'breaks_property': prop, 'title': title,
        'files_changed': files,
        'what_it_breaks': section(notes, 'clause broken', 'why it is wrong', 'clause'),
        'needs_to_manifest': section(notes, 'condition needed', 'needed to manifest', 'condition to manifest', 'to manifest', 'manifest', 'needs', 'simple use', 'multi-step', 'condition'),
        'produced_by': 'independent sub-agent given only the property text and a scratch git worktree of the pinned tree; it reported the 307-test suite green with the patch',
        'demonstration': 'demo.py (run from a tree with the patch applied: exit 1 / failure output = property broken; exit 0 on the unpatched tree)',
        'expected_to_be_caught_by': CHECKS[sid],
        'how_to_run': 'bin/try_mutant /verif/seeded/%s/patch.diff %s quick   (applies to /repo, runs the check, always reverts)' % (sid, CHECKS[sid][0]),
      }
      if sid in REBASED:
        meta['rebased'] = REBASED[sid]
      res = os.path.join(dst, 'result.json')
      if os.path.exists(res):
        meta['last_run'] = json.load(open(res))
      json.dump(meta, open(os.path.join(dst, 'meta.json'), 'w'), indent=1)
  print('ok')


if __name__ == '__main__':
  main()
