#!/bin/bash
# summarises where symbolic values were realised (reads crosshair debug output on stdin)
grep -A1 "SMT realized symbolic" | grep "Realized at" | python3 -c "
import sys,re,collections
c=collections.Counter()
for l in sys.stdin:
    fr=re.findall(r'\((\S+ [^)]+)\)', l)
    fr=[f for f in fr if not any(x in f for x in ('core.py','statespace.py','builtinslib.py','xh_worker','xhdebug','condition_parser','tracers.py'))]
    c[' > '.join(fr[-5:])]+=1
for k,v in c.most_common(15): print(v,k)
"
