#!/usr/bin/env python3
"""Regenerates MANIFEST.json from the table below (kept valid at all times)."""
import json, os
HERE = os.path.dirname(os.path.dirname(os.path.abspath(__file__)))
ALL = ['C%02d' % i for i in range(1, 21)]

CHECKS = {
  'C07': dict(
    category='other',
    text='Bounded symbolic execution of the real validator classes (CrossHair/z3: unbounded ints, bit-precise IEEE-754 binary64 floats, lists <= 3) '
         'with every path tree exhausted, plus direct z3 queries generated from the live source: FP64 lemmas for WithinPercent translated from its AST '
         '(percent from a finite list) and regex-language equivalence for equals(str)/matches_regex. Holds for all values inside those bounds; '
         'counterexamples are replayed on the real code.',
    note='Trusted: CrossHair 0.0.110 + z3 5.1.0, the AST->FP and sre->z3 translators (validated against the real code on concrete inputs each run), '
         'the oracle written from the statement. Outside: NaN limits, custom numeric types, WithinPercent percent values outside the finite list, marginal_percent==0.',
    technique='symbolic execution (CrossHair/z3) + SMT queries (z3 FP, z3 regex) from live AST',
    design='3/C07'),
}
CHECKS['C20'] = dict(
    category='other',
    text='Inductive step decided by bounded symbolic execution (CrossHair/z3) of the real _Configuration: its three maps hold an arbitrary symbolic pre-state over a concrete key universe, '
         'one operation (declare, load, load_from_dict, load_from_file, flag values, reset, save_and_restore incl. raising body, attribute assignment) with symbolic arguments is applied, '
         'and every read API (item, attribute, in, value holder, _asdict) is compared with a reference model. One step from an arbitrary state covers histories of any length over that universe.',
    note='Trusted: CrossHair+z3, the LazyDict stand-in for the three dicts (part of the claim), the reference model written from the statement. Outside: keys outside the universe (code is uniform in the key), thread-safety, --config-file at import.',
    technique='inductive-step symbolic execution (CrossHair/z3) against a reference model',
    design='3/C20')
CHECKS['C13'] = dict(
    category='other',
    text='Bounded symbolic execution (CrossHair/z3) of the real AdbMessage/RawAdbMessage/AdbTransportAdapter: wire layout and read-back for every command, all 32-bit arguments and payloads up to the bound; '
         'one message object rewritten after its fields were reassigned; rejection decided as an iff over ARBITRARY six header words and an arbitrary payload (delivered exactly when command known, length and byte-sum agree); short/empty headers; payload written after an expired timeout.',
    note='Trusted: CrossHair+z3; SymStruct stand-in for struct (validated against struct each run); EqDict look-up stub; scripted transport. Outside: payloads longer than the bound; writer/reader interleavings unless the E3 condition is listed in evidence.',
    technique='symbolic execution (CrossHair/z3) of real framing code over symbolic header words and payload',
    design='3/C13')
CHECKS['C16'] = dict(
    category='other',
    text='Bounded symbolic execution (CrossHair/z3) of the real FastbootProtocol/FastbootCommands against a scripted bootloader whose packets are fully symbolic strings (<=6 chars, <=3 packets): '
         'the outcome, returned payload and forwarded INFO/OKAY/FAIL texts equal a specification automaton; every command is one "command[:arg]" packet; download announces the size, sends image bytes only after DATA with exactly that size, '
         'in order, in chunks <= the configured size, with cumulative progress that survives raising callbacks, for image sizes around multiples of the chunk size; flash_from_file as a two-command sequence (flash:<partition> exactly once and only after the download\'s OKAY, texts and payloads of both commands in device order).',
    note='Trusted: CrossHair+z3, the specification automaton in props/C16.py, FakeUsb. Commands/args and image sizes are enumerated (formatting with %08x realises symbolic ints); DATA packets carry well-formed hex size fields; error message texts with symbolic device text are not checked (concrete texts are).',
    technique='symbolic execution (CrossHair/z3) vs specification automaton over symbolic device responses',
    design='3/C16')
CHECKS['C15'] = dict(
    category='other',
    text='Bounded symbolic execution (CrossHair/z3) of the real AdbConnection.connect/open_stream/close paths against a message-level scripted device: handshake outcome and every packet sent equal a specification automaton '
         'for all reply scripts up to the bound (any command, symbolic arguments, silence, symbolic timeout expiry, 0-2 keys); open_stream over replies addressed to this/another/unknown stream from an arbitrary allocator state; '
         'a refusal (CLSE) of a half-open OPEN that is received by another stream\'s reader (the two-thread schedule written out with the real functions); local/remote/double close; illegal mid-session packets; and an inductive step for stream-id allocation from an arbitrary pre-state (covers wrap-around and histories of any length).',
    note='Trusted: CrossHair+z3; message-level FakeAdapter (framing is C13), queue/KeyList/ScriptTimeout stubs, the specification automaton in props/C15.py. Outside: >64 consecutive live ids, real RSA, thread interleavings (C14).',
    technique='symbolic execution (CrossHair/z3) vs specification automaton; inductive step for id allocation',
    design='3/C15')
CHECKS['C17'] = dict(
    category='fault_enumeration',
    text='Bounded symbolic execution (CrossHair/z3) of the real OutputToFile/OutputToJSON/Atomic/atomic_write over an in-memory file-system model: fault kind and index (serializer after k chunks, k-th write, close/flush) '
         'and the crash point (FS operation after which nothing reaches the disk) are symbolic; after every run the destination is absent (only if it was), the old complete record, or the complete new serialization; '
         'fault-free runs publish exactly the serialization under the formatted name; a two-run history (first run killed at a symbolic FS operation, second run fault-free on the disk the first left) publishes exactly the second record.',
    note='Trusted: CrossHair+z3 and the MemFS model (buffered writes, atomic rename on one file system, non-atomic copyfile, os.open/fdopen flags with in-place overwrite); use of an unmodelled FS primitive is reported INCONCLUSIVE, not as a violation. Outside: real kernel/power-loss ordering, staging dir on another file system.',
    technique='symbolic execution (CrossHair/z3) over symbolic fault/crash indices on a file-system model',
    design='3/C17')
CHECKS['C06'] = dict(
    category='other',
    text='Bounded symbolic execution (CrossHair/z3) of the real measurement stack (Collection, Measurement, MeasuredValue, DimensionedMeasuredValue, PhaseState.from_descriptor/_finalize_measurements/_measurements_pass/_marginal, real in_range/equals/pivot validators) '
         'over symbolic assignment histories: recorded value = transform(last), outcome UNSET/PASS/FAIL and marginal recomputed from scratch, per-coordinate overrides in first-assignment order, rejected assignments change nothing, raising validators, conditional validators, no PARTIALLY_SET after phase end whether the body returned, returned STOP, raised or timed out (a terminal result is never overwritten).',
    note='Trusted: CrossHair+z3, the from-scratch oracle in props/C06.py, a fake TestState/diagnoses store. Histories <=2 scalar (3 thorough) / <=2 dimensioned (3 thorough) assignments; int/None values; limits symbolic.',
    technique='symbolic execution (CrossHair/z3) of assignment histories vs from-scratch oracle',
    design='3/C06')
CHECKS['C05'] = dict(
    category='other',
    text='Bounded symbolic execution (CrossHair/z3) of the real per-phase pipeline (TestExecutor._execute_phase, PhaseExecutor.execute_phase/_should_repeat/_execute_phase_once, PhaseExecutorThread._thread_proc, running_phase_context, PhaseState.finalize, diagnosers) '
         'for one script-driven phase: per-invocation behaviour, options, measurement, diagnoser results, position and previous record are symbolic; the records, invocation count, diagnoser runs and executor return equal the decision table of the statement; a run_if whose answer changes between invocations is consulted before every invocation.',
    note='Trusted: CrossHair+z3, synchronous thread stubs (bodies run inline), FakeClock, the decision table in props/C05.py. Timeout is a scripted behaviour. <=4 invocations, repeat_limit in {None,1..4}.',
    technique='symbolic execution (CrossHair/z3) vs decision table',
    design='3/C05')
CHECKS['C01'] = dict(
    category='other',
    text='Bounded symbolic execution (CrossHair/z3) of the real test executor (threads made synchronous) on trees of family T with symbolic per-invocation scripts (any two phases deviate with any of 13 behaviour kinds, diagnoser codes, stop_on_first_failure, allow_unset): the record outcome equals the ladder of the statement computed by an independent specification interpreter and PASS implies every conjunct on the observed record; '
         'plus an inductive lemma on the finalisation ladder from an arbitrary executor state, a two-consecutive-runs condition (no leak of settings between runs) and fault injection of executor-internal errors.',
    note='Trusted: CrossHair+z3; synchronous thread stubs, FakeClock, the specification interpreter vlib/spec_events.py. Tree shapes are enumerated (family T), not symbolic. One known finding (executor-internal error finalises normally, see known_findings.json).',
    technique='symbolic execution (CrossHair/z3) of the real executor vs specification interpreter; inductive lemma',
    design='3/C01')
CHECKS['C02'] = dict(
    category='other',
    text='Bounded symbolic execution (CrossHair/z3) of the real test executor (threads made synchronous) on every tree of family T (14 quick / 22 thorough shapes covering every node kind under every collection kind) with symbolic scripts: the call log (order, multiplicity) and the phase / subtest / branch / checkpoint records equal those produced by an independent executable reading of docs/event_sequence.md for every script within the bound.',
    note='Trusted: CrossHair+z3; synchronous thread stubs, FakeClock; vlib/spec_events.py (validated natively against the real executor on seeded scripts). Tree shapes are enumerated, not symbolic; at most two phases deviate from nominal in the quick tier. The sampling part of the quantifier is not done.',
    technique='symbolic execution (CrossHair/z3) of the real executor vs specification interpreter of docs/event_sequence.md',
    design='3/C02')
CHECKS['C03'] = dict(
    category='other',
    text='Programs part: bounded symbolic execution (CrossHair/z3) of the real executor on the trees of T that contain groups (top level, in a subtest, nested in main, nested in teardown, behind a branch) with symbolic scripts; a monitor written from the statement checks on the observed call log that every teardown node of an entered group ran exactly once after main stopped (exception, STOP, timeout, failed subtest, nested-group failure, terminal earlier teardown node), that nothing of the group runs when setup did not complete, and that a terminal teardown result propagates outward.',
    note='Abort part (props/C03a.py, engine seqz shared with C04): the sequentialised real executor / phase executor / phase thread run two group programs while one abort() arrives at every step of the run with one more symbolic preemption; teardown of an entered group runs exactly once, in order, before plug teardown. Trusted: CrossHair+z3, synchronous thread stubs (programs part), vlib/seqz (abort part), the monitors. Outside: abort in other group shapes; plug tearDown ordering is C08.',
    technique='symbolic execution (CrossHair/z3) of the real executor with a teardown monitor on the call log',
    design='3/C03')
CHECKS['C18'] = dict(
    category='model_checking', engine='seqz',
    text='Bounded model checking of the sequentialised real code: SubscribableStateMixin.asdict_with_event / notify_update and PlugManager.wait_for_plug_update are rewritten from their live source into coroutines with statement-level preemption points and run on cooperative primitives; scheduler decisions (<= 2 preemptions quick / 3 thorough, thread picks) are symbolic ints and CrossHair/z3 exhausts the schedules: a notification issued after a snapshot sets that watcher event, one notification wakes all registered watchers, looping watchers reach the final state, nobody is blocked forever.',
    note='Trusted: CrossHair+z3, the sequentialiser and cooperative primitives in vlib/seqz (counterexamples replay in the sequentialised model, not on real threads), WeakSet replaced by a set. Preemption only between statements of the encoded functions.',
    technique='sequentialisation of real code + symbolic schedule (CrossHair/z3), preemption-bounded',
    design='3/C18')
CHECKS['C08'] = dict(
    category='fault_enumeration',
    text='Bounded symbolic execution (CrossHair/z3) of the real plug lifecycle through Test.execute (PlugManager.initialize_plugs/tear_down_plugs/provide_plugs, two-stage initialisation around test_start, teardown in finally) with instrumented plug classes: which constructor raises, per-plug tearDown ok/raises/hangs, test_start variant and the deviating phase are symbolic; a monitor on the plug event log checks one construction per class, same instance under the requested name, exactly one tearDown per constructed instance after the last phase and before the callbacks, outcome unaffected by tearDown faults, constructor failure -> ERROR with no further phase, only test_start plugs exist during test_start.',
    note='Trusted: CrossHair+z3, synchronous thread stubs (a hanging tearDown = tear-down thread that stays alive and cannot be joined without timeout), FakeClock. 3 plug classes, fixed plug-to-phase assignment.',
    technique='symbolic execution (CrossHair/z3) with symbolic fault positions and an event-log monitor',
    design='3/C08')
CHECKS['C09'] = dict(
    category='other',
    text='Bounded symbolic execution (CrossHair/z3) of the real Test.execute contract: for programs of family T with a symbolic deviating phase, symbolic subsets of raising callbacks, four test_start variants, repeated execution and an overlapping execute() issued from inside a phase body or an output callback: every callback called exactly once in order with the identical, final record (outcome/end time/phase records complete, dut_id, metadata, no running phase), return value iff PASS, executor/SIGINT registration/record handler gone afterwards, overlap refused with InvalidTestStateError; SIGINT (real Test.handle_sig_int) while execute() waits, before the executor started or just after it finished: final record once to every callback, clean-up, KeyboardInterrupt re-raised.',
    note='Trusted: CrossHair+z3, synchronous thread stubs (executor body runs when execute() waits), FakeClock. Single OS thread: the overlapping call is re-entrant. SIGINT moments inside the run are C04\'s.',
    technique='symbolic execution (CrossHair/z3) of Test.execute with a finality/exactly-once monitor',
    design='3/C09')
CHECKS['C10'] = dict(
    category='other',
    text='Bounded symbolic execution (CrossHair/z3) of the real incremental base-type caches against a from-scratch rendering (deep copy with every cache dropped): symbolic operation histories inside a phase (scalar/dimensioned sets with transforms, attachments, reads of the live view; int and IEEE float values) and whole records produced by trees of family T (every record list must be present and equal its fresh rendering); plus a lemma that data.convert_to_base_types(json_safe=True) only yields strict-JSON-representable trees for the stated value family.',
    note='Trusted: CrossHair+z3, the standard json module (strict encoding / decode equality follow from the lemma), fake TestState for in-phase histories. Log records are C19; attachments byte round trip through base64 is not decided.',
    technique='symbolic execution (CrossHair/z3) vs from-scratch renderer; conversion lemma',
    design='3/C10')
CHECKS['C11'] = dict(
    category='other',
    text='Bounded symbolic execution (CrossHair/z3): (a) derive/decorate histories (<=2 operations chosen by symbolic selectors from with_args, with_plugs, PhaseOptions, measures, diagnose, plug, wrapping into sequence/group/subtest, collection.with_args/with_plugs) followed by a mutation of the derived object: deep structural snapshot of the original unchanged and no mutable container shared; (b) the same Test executed twice with independent symbolic scripts: the second record equals what the specification interpreter derives from the second script alone (incl. conditional validators) and the declared tree is unchanged.',
    note='Trusted: CrossHair+z3, snapshot/aliasing functions in props/C11.py, spec interpreter. One known finding (nested collections share phase objects). Two tests running concurrently in one process are NOT decided (see DESIGN.md).',
    technique='symbolic execution (CrossHair/z3) with structural snapshots; second-run vs specification',
    design='3/C11')
CHECKS['C19'] = dict(
    category='other',
    text='(E2) z3 string/regex query on the live RECORD_LOGGER_RE: a record named openhtf.test_record.<u>[.<suffix>] passes TestUidFilter(v) iff u == v for all dot-free uids up to the bound (models replayed through the real filter); (E1) bounded symbolic execution of real handler add/remove/emit with real logging dispatch over symbolic histories of two runs (start/stop/log through record, phase, plug and framework loggers): each run records exactly its own and framework messages once, in order, with level/name/file/line/millis, no handler remains after the end; MAC redaction over symbolic octets/case/context.',
    note='Trusted: CrossHair+z3, sre->z3 translation (validated against re on a solver-chosen name), FakeClock. Single thread; uids without dots.',
    technique='SMT string/regex query from live pattern + symbolic execution of logging histories',
    design='3/C19')
CHECKS['C12'] = dict(
    category='model_checking', engine='seqz',
    text='Bounded model checking of the real KillableThread/kill/join_or_die logic: the thread body, the kill request and the joiner are coroutines generated from the live source (sequentialisation) on cooperative primitives with virtual time; '
         'the step at which kill is delivered, the body shape (finishing, raising, swallowing the termination, blocked) and the join timeout are symbolic and CrossHair/z3 exhausts the paths: kill of a not-started or finished thread is a no-op, a delivered kill ends the thread through ThreadTerminationError exactly once, '
         '_thread_exc/_thread_finished run, join_or_die returns or raises by its deadline.',
    note='Trusted: CrossHair+z3, the sequentialising transformer and cooperative primitives (vlib/seqz), asynchronous exception delivery modelled as a pending exception raised at the next statement boundary of the target. Outside: CPython C-level delivery (PyThreadState_SetAsyncExc latency), real time. Schedule variables are pinned by bisection and the pinned schedule runs natively on the sequentialised code (the solver partitions and exhausts the schedule domain; it does not reason symbolically about the code inside a path). Counterexamples replay in the sequentialised model, not on real threads; the genuine findings were additionally reproduced on real threads by scripts under findings/.',
    technique='sequentialisation of real threading code + symbolic schedule (CrossHair/z3)',
    design='8/C12')
CHECKS['C04'] = dict(
    category='model_checking', engine='seqz',
    text='Bounded model checking of the real abort path: TestExecutor._execute_abortable_sequence/_execute_node/abort/..., PhaseExecutor.execute_phase/_execute_phase_once/abort/reset_stop and PhaseExecutorThread are sequentialised from the live source; '
         'test programs (a single phase, setup/main/teardown groups, a group nested in a teardown, and in the thorough tier a repeating phase) run as coroutines on cooperative primitives while one or two abort() calls arrive at symbolic steps under a symbolic preemption; after every schedule: the outcome is ABORTED whenever the abort was registered before the plug teardown of the finalization returned (the plug teardown is a preemption point), '
         'no main-phase body starts after abort() returned, teardown of every entered group runs exactly once, a second abort skips at most the current teardown phase, and the executor always terminates.',
    note='Trusted: CrossHair+z3, vlib/seqz transformer and primitives, phase bodies as scripted coroutines with virtual durations. One class of schedule violates the statement on the pinned tree and is listed as known finding D13 (abort lost between the executor check and the phase start). Outside: >2 aborts, schedules inside tear_down_plugs beyond one preemption point, real signal delivery. Schedule variables are pinned by bisection and the pinned schedule runs natively on the sequentialised code (the solver partitions and exhausts the schedule domain; it does not reason symbolically about the code inside a path). Counterexamples replay in the sequentialised model, not on real threads; the genuine findings were additionally reproduced on real threads by scripts under findings/.',
    technique='sequentialisation of the real executor abort path + symbolic schedule (CrossHair/z3)',
    design='8/C04')
CHECKS['C14'] = dict(
    category='model_checking', engine='seqz',
    text='Bounded model checking of the real ADB stream multiplexer: AdbStreamTransport (_read_messages_until_true, _handle_message, enqueue_message, read, write, _send_command, close), AdbConnection (read_for_stream, _handle_message_for_stream, close_stream_transport) and AdbStream.read/write are sequentialised from the live source and run on cooperative Lock/RLock/Condition/Queue with virtual time; '
         'two streams with one reader each under every merge of the device packets, and a writer plus a reader on one stream with device bytes at every position (before/after the OKAY), under a symbolic preemption (two in the short scenario and in the thorough tier) with bounded time skips: per-stream exact in-order bytes, one OKAY per device WRTE with the right ids, CLSE answered once, chunks <= maxdata with one outstanding WRTE, no deadlock, no write waiting out its timeout after its OKAY arrived.',
    note='Trusted: CrossHair+z3, vlib/seqz transformer and primitives, reactive message-level device (framing is C13, handshake C15). Found and fixed D14 (lost wake-up). Outside: 3 streams, longer scripts, >2 preemptions, the randomised part of the quantifier, real-thread timing. Schedule variables are pinned by bisection and the pinned schedule runs natively on the sequentialised code (the solver partitions and exhausts the schedule domain; it does not reason symbolically about the code inside a path). Counterexamples replay in the sequentialised model, not on real threads; the genuine findings were additionally reproduced on real threads by scripts under findings/.',
    technique='sequentialisation of the real stream multiplexer + symbolic schedule (CrossHair/z3)',
    design='8/C14')
NA_REASON = {}
DEFAULT_NA = 'check not built yet in this round (work in progress; see DESIGN.md section 6 for the plan)'

def main():
  checks = []
  for pid in ALL:
    if pid not in CHECKS:
      continue
    c = CHECKS[pid]
    checks.append({
      'property_id': pid,
      'quick_cmd': './bin/check %s --tier quick' % pid,
      'thorough_cmd': './bin/check %s --tier thorough' % pid,
      'evidence_file': 'evidence/%s.json' % pid,
      'replay_cmd_template': './bin/check %s --replay {path}' % pid,
      'engine': c.get('engine', 'xh'),
      'level_claimed': {'category': c['category'], 'text': c['text'], 'design_ref': 'DESIGN.md ' + c['design']},
      'level_note': c['note'],
      'technique': c['technique'],
    })
  man = {
    'version': 1,
    'setup_cmd': './setup.sh',
    'hooks': {'guard': 'OPENHTF_VERIF', 'enable': 'none needed: all instrumentation is monkey-patching from the harness process; no hook commits in /repo',
              'baseline_off_cmd': 'cd /repo && /venv/bin/python -m pytest -ra -q -p no:cacheprovider --timeout=900 --continue-on-collection-errors',
              'source_commits': [], 'add_only': True},
    'engines': [
      {'name': 'xh', 'path': 'vlib/xh.py', 'serves_properties': sorted(CHECKS), 'kind_free_text': 'E1: CrossHair 0.0.110 path-exhaustive symbolic execution of the real Python code, z3 back end; one subprocess per (sub)condition'},
      {'name': 'smt', 'path': 'vlib/smt.py', 'serves_properties': ['C07', 'C19'], 'kind_free_text': 'E2: direct z3 queries (FP, regex) generated from live AST / compiled patterns'},
      {'name': 'seqz', 'path': 'vlib/seqz/core.py', 'serves_properties': ['C03', 'C04', 'C12', 'C13', 'C14', 'C18'], 'kind_free_text': 'E3: AST sequentialisation of real functions into coroutines + cooperative primitives + scheduler with symbolic decisions; back end CrossHair/z3'},
    ],
    'checks': checks,
    'not_applicable': [{'property_id': p, 'reason': NA_REASON.get(p, DEFAULT_NA)} for p in ALL if p not in CHECKS],
    'notes': 'Exit codes: 0 held, 1 violation (VIOLATION line), 2 inconclusive (never reported as success). See DESIGN.md.',
  }
  with open(os.path.join(HERE, 'MANIFEST.json'), 'w') as f:
    json.dump(man, f, indent=1)
  print('wrote MANIFEST.json with', len(checks), 'checks')

if __name__ == '__main__':
  main()
