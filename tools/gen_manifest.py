#!/usr/bin/env python3
"""Regenerates MANIFEST.json from the table below (kept valid at all times)."""
import json, os
HERE = os.path.dirname(os.path.dirname(os.path.abspath(__file__)))
ALL = ['C%02d' % i for i in range(1, 21)]

CHECKS = {
  'C07': dict(
    category='other',
    text='Bounded symbolic execution of the real validator classes (CrossHair/z3: unbounded ints, bit-precise IEEE-754 binary64 floats, lists <= 3) '
         'with every path tree exhausted, plus direct z3 queries generated from the live source: FP64 lemmas for WithinPercent translated from its AST '
         '(percent from a finite list) and regex-language equivalence for equals(str)/matches_regex. Holds for all values inside those bounds; '
         'counterexamples are replayed on the real code.',
    note='Trusted: CrossHair 0.0.110 + z3 5.1.0, the AST->FP and sre->z3 translators (validated against the real code on concrete inputs each run), '
         'the oracle written from the statement. Outside: NaN limits, custom numeric types, WithinPercent percent values outside the finite list, marginal_percent==0.',
    technique='symbolic execution (CrossHair/z3) + SMT queries (z3 FP, z3 regex) from live AST',
    design='3/C07'),
}
CHECKS['C20'] = dict(
    category='other',
    text='Inductive step decided by bounded symbolic execution (CrossHair/z3) of the real _Configuration: its three maps hold an arbitrary symbolic pre-state over a concrete key universe, '
         'one operation (declare, load, load_from_dict, load_from_file, flag values, reset, save_and_restore incl. raising body, attribute assignment) with symbolic arguments is applied, '
         'and every read API (item, attribute, in, value holder, _asdict) is compared with a reference model. One step from an arbitrary state covers histories of any length over that universe.',
    note='Trusted: CrossHair+z3, the LazyDict stand-in for the three dicts (part of the claim), the reference model written from the statement. Outside: keys outside the universe (code is uniform in the key), thread-safety, --config-file at import.',
    technique='inductive-step symbolic execution (CrossHair/z3) against a reference model',
    design='3/C20')
CHECKS['C13'] = dict(
    category='other',
    text='Bounded symbolic execution (CrossHair/z3) of the real AdbMessage/RawAdbMessage/AdbTransportAdapter: wire layout and read-back for every command, all 32-bit arguments and payloads up to the bound; '
         'rejection decided as an iff over ARBITRARY six header words and an arbitrary payload (delivered exactly when command known, length and byte-sum agree); short/empty headers; payload written after an expired timeout.',
    note='Trusted: CrossHair+z3; SymStruct stand-in for struct (validated against struct each run); EqDict look-up stub; scripted transport. Outside: payloads longer than the bound; writer/reader interleavings unless the E3 condition is listed in evidence.',
    technique='symbolic execution (CrossHair/z3) of real framing code over symbolic header words and payload',
    design='3/C13')
CHECKS['C16'] = dict(
    category='other',
    text='Bounded symbolic execution (CrossHair/z3) of the real FastbootProtocol/FastbootCommands against a scripted bootloader whose packets are fully symbolic strings (<=6 chars, <=3 packets): '
         'the outcome, returned payload and forwarded INFO/OKAY/FAIL texts equal a specification automaton; every command is one "command[:arg]" packet; download announces the size, sends image bytes only after DATA with exactly that size, '
         'in order, in chunks <= the configured size, with cumulative progress that survives raising callbacks, for image sizes around multiples of the chunk size.',
    note='Trusted: CrossHair+z3, the specification automaton in props/C16.py, FakeUsb. Commands/args and image sizes are enumerated (formatting with %08x realises symbolic ints); DATA packets carry well-formed hex size fields; error message texts with symbolic device text are not checked (concrete texts are).',
    technique='symbolic execution (CrossHair/z3) vs specification automaton over symbolic device responses',
    design='3/C16')
CHECKS['C15'] = dict(
    category='other',
    text='Bounded symbolic execution (CrossHair/z3) of the real AdbConnection.connect/open_stream/close paths against a message-level scripted device: handshake outcome and every packet sent equal a specification automaton '
         'for all reply scripts up to the bound (any command, symbolic arguments, silence, symbolic timeout expiry, 0-2 keys); open_stream over replies addressed to this/another/unknown stream from an arbitrary allocator state; '
         'local/remote/double close; illegal mid-session packets; and an inductive step for stream-id allocation from an arbitrary pre-state (covers wrap-around and histories of any length).',
    note='Trusted: CrossHair+z3; message-level FakeAdapter (framing is C13), queue/KeyList/ScriptTimeout stubs, the specification automaton in props/C15.py. Outside: >64 consecutive live ids, real RSA, thread interleavings (C14).',
    technique='symbolic execution (CrossHair/z3) vs specification automaton; inductive step for id allocation',
    design='3/C15')
CHECKS['C17'] = dict(
    category='fault_enumeration',
    text='Bounded symbolic execution (CrossHair/z3) of the real OutputToFile/OutputToJSON/Atomic/atomic_write over an in-memory file-system model: fault kind and index (serializer after k chunks, k-th write, close/flush) '
         'and the crash point (FS operation after which nothing reaches the disk) are symbolic; after every run the destination is absent (only if it was), the old complete record, or the complete new serialization; '
         'fault-free runs publish exactly the serialization under the formatted name.',
    note='Trusted: CrossHair+z3 and the MemFS model (buffered writes, atomic rename on one file system, non-atomic copyfile). Outside: real kernel/power-loss ordering, staging dir on another file system.',
    technique='symbolic execution (CrossHair/z3) over symbolic fault/crash indices on a file-system model',
    design='3/C17')
CHECKS['C06'] = dict(
    category='other',
    text='Bounded symbolic execution (CrossHair/z3) of the real measurement stack (Collection, Measurement, MeasuredValue, DimensionedMeasuredValue, PhaseState.from_descriptor/_finalize_measurements/_measurements_pass/_marginal, real in_range/equals/pivot validators) '
         'over symbolic assignment histories: recorded value = transform(last), outcome UNSET/PASS/FAIL and marginal recomputed from scratch, per-coordinate overrides in first-assignment order, rejected assignments change nothing, raising validators, conditional validators, no PARTIALLY_SET after phase end.',
    note='Trusted: CrossHair+z3, the from-scratch oracle in props/C06.py, a fake TestState/diagnoses store. Histories <=2 scalar (3 thorough) / <=2 dimensioned (3 thorough) assignments; int/None values; limits symbolic.',
    technique='symbolic execution (CrossHair/z3) of assignment histories vs from-scratch oracle',
    design='3/C06')
CHECKS['C05'] = dict(
    category='other',
    text='Bounded symbolic execution (CrossHair/z3) of the real per-phase pipeline (TestExecutor._execute_phase, PhaseExecutor.execute_phase/_should_repeat/_execute_phase_once, PhaseExecutorThread._thread_proc, running_phase_context, PhaseState.finalize, diagnosers) '
         'for one script-driven phase: per-invocation behaviour, options, measurement, diagnoser results, position and previous record are symbolic; the records, invocation count, diagnoser runs and executor return equal the decision table of the statement.',
    note='Trusted: CrossHair+z3, synchronous thread stubs (bodies run inline), FakeClock, the decision table in props/C05.py. Timeout is a scripted behaviour. <=4 invocations, repeat_limit in {None,1..4}.',
    technique='symbolic execution (CrossHair/z3) vs decision table',
    design='3/C05')
CHECKS['C01'] = dict(
    category='other',
    text='Bounded symbolic execution (CrossHair/z3) of the real test executor (threads made synchronous) on trees of family T with symbolic per-invocation scripts (any two phases deviate with any of 13 behaviour kinds, diagnoser codes, stop_on_first_failure, allow_unset): the record outcome equals the ladder of the statement computed by an independent specification interpreter and PASS implies every conjunct on the observed record; '
         'plus an inductive lemma on the finalisation ladder from an arbitrary executor state, a two-consecutive-runs condition (no leak of settings between runs) and fault injection of executor-internal errors.',
    note='Trusted: CrossHair+z3; synchronous thread stubs, FakeClock, the specification interpreter vlib/spec_events.py. Tree shapes are enumerated (family T), not symbolic. One known finding (executor-internal error finalises normally, see known_findings.json).',
    technique='symbolic execution (CrossHair/z3) of the real executor vs specification interpreter; inductive lemma',
    design='3/C01')
CHECKS['C02'] = dict(
    category='other',
    text='Bounded symbolic execution (CrossHair/z3) of the real test executor (threads made synchronous) on every tree of family T (14 quick / 22 thorough shapes covering every node kind under every collection kind) with symbolic scripts: the call log (order, multiplicity) and the phase / subtest / branch / checkpoint records equal those produced by an independent executable reading of docs/event_sequence.md for every script within the bound.',
    note='Trusted: CrossHair+z3; synchronous thread stubs, FakeClock; vlib/spec_events.py (validated natively against the real executor on seeded scripts). Tree shapes are enumerated, not symbolic; at most two phases deviate from nominal in the quick tier. The sampling part of the quantifier is not done.',
    technique='symbolic execution (CrossHair/z3) of the real executor vs specification interpreter of docs/event_sequence.md',
    design='3/C02')
CHECKS['C03'] = dict(
    category='other',
    text='Programs part only: bounded symbolic execution (CrossHair/z3) of the real executor on the trees of T that contain groups (top level, in a subtest, nested in main, nested in teardown, behind a branch) with symbolic scripts; a monitor written from the statement checks on the observed call log that every teardown node of an entered group ran exactly once after main stopped (exception, STOP, timeout, failed subtest, nested-group failure, terminal earlier teardown node), that nothing of the group runs when setup did not complete, and that a terminal teardown result propagates outward.',
    note='Trusted: CrossHair+z3, synchronous thread stubs, the monitor in props/C03.py. NOT covered: the abort/schedule part of the quantifier (single operator abort at any moment) - see DESIGN.md; plug tearDown ordering is C08.',
    technique='symbolic execution (CrossHair/z3) of the real executor with a teardown monitor on the call log',
    design='3/C03')
CHECKS['C18'] = dict(
    category='model_checking', engine='seqz',
    text='Bounded model checking of the sequentialised real code: SubscribableStateMixin.asdict_with_event / notify_update and PlugManager.wait_for_plug_update are rewritten from their live source into coroutines with statement-level preemption points and run on cooperative primitives; scheduler decisions (<= 2 preemptions quick / 3 thorough, thread picks) are symbolic ints and CrossHair/z3 exhausts the schedules: a notification issued after a snapshot sets that watcher event, one notification wakes all registered watchers, looping watchers reach the final state, nobody is blocked forever.',
    note='Trusted: CrossHair+z3, the sequentialiser and cooperative primitives in vlib/seqz (counterexamples replay in the sequentialised model, not on real threads), WeakSet replaced by a set. Preemption only between statements of the encoded functions.',
    technique='sequentialisation of real code + symbolic schedule (CrossHair/z3), preemption-bounded',
    design='3/C18')
NA_REASON = {}
DEFAULT_NA = 'check not built yet in this round (work in progress; see DESIGN.md section 6 for the plan)'

def main():
  checks = []
  for pid in ALL:
    if pid not in CHECKS:
      continue
    c = CHECKS[pid]
    checks.append({
      'property_id': pid,
      'quick_cmd': './bin/check %s --tier quick' % pid,
      'thorough_cmd': './bin/check %s --tier thorough' % pid,
      'evidence_file': 'evidence/%s.json' % pid,
      'replay_cmd_template': './bin/check %s --replay {path}' % pid,
      'engine': c.get('engine', 'xh'),
      'level_claimed': {'category': c['category'], 'text': c['text'], 'design_ref': 'DESIGN.md ' + c['design']},
      'level_note': c['note'],
      'technique': c['technique'],
    })
  man = {
    'version': 1,
    'setup_cmd': './setup.sh',
    'hooks': {'guard': 'OPENHTF_VERIF', 'enable': 'none needed: all instrumentation is monkey-patching from the harness process; no hook commits in /repo',
              'baseline_off_cmd': 'cd /repo && /venv/bin/python -m pytest -ra -q -p no:cacheprovider --timeout=900 --continue-on-collection-errors',
              'source_commits': [], 'add_only': True},
    'engines': [
      {'name': 'xh', 'path': 'vlib/xh.py', 'serves_properties': sorted(CHECKS), 'kind_free_text': 'E1: CrossHair 0.0.110 path-exhaustive symbolic execution of the real Python code, z3 back end; one subprocess per (sub)condition'},
      {'name': 'smt', 'path': 'vlib/smt.py', 'serves_properties': ['C07'], 'kind_free_text': 'E2: direct z3 queries (FP, regex) generated from live AST / compiled patterns'},
      {'name': 'seqz', 'path': 'vlib/seqz/core.py', 'serves_properties': ['C13', 'C18'], 'kind_free_text': 'E3: AST sequentialisation of real functions into coroutines + cooperative primitives + scheduler with symbolic decisions; back end CrossHair/z3'},
    ],
    'checks': checks,
    'not_applicable': [{'property_id': p, 'reason': NA_REASON.get(p, DEFAULT_NA)} for p in ALL if p not in CHECKS],
    'notes': 'Exit codes: 0 held, 1 violation (VIOLATION line), 2 inconclusive (never reported as success). See DESIGN.md.',
  }
  with open(os.path.join(HERE, 'MANIFEST.json'), 'w') as f:
    json.dump(man, f, indent=1)
  print('wrote MANIFEST.json with', len(checks), 'checks')

if __name__ == '__main__':
  main()
