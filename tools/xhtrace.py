"""tools/xhtrace.py <module> <cond> name=value ...  : runs ONE path of a condition under CrossHair
tracing with every argument pinned (extra pre-conditions), to reproduce tracing-only behaviour."""
import sys
sys.path.insert(0, '/verif')
argv = sys.argv[1:]
import logging
logging.getLogger().addHandler(logging.NullHandler())
import vlib.env
from vlib import xh_worker
import argparse, inspect, importlib
M = importlib.import_module(argv[0])
fn = getattr(M, argv[1])
pins = dict(a.split('=', 1) for a in argv[2:])
ns = argparse.Namespace(module=argv[0], cond=argv[1], timeout=60.0, per_path_timeout=0, fix=[], extra_pre=[' and '.join('%s == %s' % kv for kv in pins.items())])
xh_worker.analyze(ns)
