"""tools/xhdebug.py <module> <cond> [timeout] [fix k=v ...]  (run with 2>&1 | tools/xhrealize.sh)"""
import sys
sys.path.insert(0, '/verif')
argv = sys.argv[1:]
import logging
logging.getLogger().addHandler(logging.NullHandler())
import vlib.env
from crosshair.util import set_debug
set_debug(True)
from vlib import xh_worker
import argparse
ns = argparse.Namespace(module=argv[0], cond=argv[1], timeout=float(argv[2]) if len(argv) > 2 else 20.0,
                        per_path_timeout=0, fix=argv[3:], extra_pre=[])
xh_worker.analyze(ns)
